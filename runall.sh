#!/bin/sh
# Runs every registered quick check on /repo and reports exit codes (evidence is rewritten).
cd /verif
for id in $(python3 -c "import json;print(' '.join(c['property_id'] for c in json.load(open('MANIFEST.json'))['checks']))"); do
  /verif/bin/govc check -id $id -tier ${VERIF_TIER:-quick} > /tmp/govc_$id.log 2>&1
  echo "$id exit=$? $(tail -1 /tmp/govc_$id.log)"
  grep -h "^VIOLATION\|^UNDECIDED\|^KNOWN" /tmp/govc_$id.log | cut -c1-200
done
