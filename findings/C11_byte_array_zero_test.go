package rlp

// Demonstration for C11 rlp.decodeByteArray#post.consumed against the real decoder: the canonical
// encoding of struct{A [1]byte; B uint}{A: {0}, B: 5} is c2 00 05; before the fix commit decoding
// the zero byte into the one-element array ignored Stream.Uint's error, left the stream armed on the
// consumed value, and the next field failed to decode.

import (
	"bytes"
	"testing"
)

func TestFindingByteArrayZero(t *testing.T) {
	type T struct {
		A [1]byte
		B uint
	}
	in := T{A: [1]byte{0}, B: 5}
	enc, err := EncodeToBytes(in)
	if err != nil {
		t.Fatal(err)
	}
	if !bytes.Equal(enc, []byte{0xc2, 0x00, 0x05}) {
		t.Fatalf("unexpected encoding %x", enc)
	}
	var out T
	if err := DecodeBytes(enc, &out); err != nil {
		t.Fatalf("canonical encoding %x of %+v rejected: %v", enc, in, err)
	}
	if out != in {
		t.Fatalf("decoded %+v, want %+v", out, in)
	}
}
