package state

// Demonstration of known finding C09 state.touchChange.undo#post.repinv against the real code.
// Run: go test -mod=mod -overlay <overlay mapping core/state/zz_finding_test.go to this file> -run TestFindingTouchRevert ./core/state/

import (
	"math/big"
	"testing"

	"gitlab.com/aquachain/aquachain/aquadb"
	"gitlab.com/aquachain/aquachain/common"
)

func TestFindingTouchRevert(t *testing.T) {
	db := aquadb.NewMemDatabase()
	sdb := NewDatabase(db)
	s0, _ := New(common.Hash{}, sdb)
	x := common.HexToAddress("0x1234")
	s0.CreateAccount(x) // empty account
	root0, err := s0.Commit(false)
	if err != nil {
		t.Fatal(err)
	}
	s1, err := New(root0, sdb)
	if err != nil {
		t.Fatal(err)
	}
	snap := s1.Snapshot()
	s1.AddBalance(x, new(big.Int)) // touch
	s1.RevertToSnapshot(snap)
	s1.AddBalance(x, big.NewInt(5))
	if got := s1.GetBalance(x); got.Int64() != 5 {
		t.Fatalf("balance %v", got)
	}
	root1 := s1.IntermediateRoot(false)
	if root1 == root0 {
		t.Logf("FINDING REPRODUCED: balance of %x is 5 but the state root is unchanged (%x)", x, root1)
	} else {
		t.Fatalf("finding no longer reproduces: root changed %x -> %x", root0, root1)
	}
}
