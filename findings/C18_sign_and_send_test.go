package rpc

// Demonstration for C18 (rpc.isProtectedMethodName#post.protects.aquaapi.PrivateAccountAPI.SignAndSendTransaction),
// against the real RegisterName: a service registered from a function named startHTTP (as node.startHTTP does) loses
// SendTransaction in the default environment but keeps SignAndSendTransaction, which
// internal/aquaapi.PrivateAccountAPI implements as an alias of SendTransaction (signs with the key store).
// Before the fix commit this test fails (the alias stays exposed); after it, it passes.

import (
	"strings"
	"testing"
)

type FindingAccountAPI struct{}

func (FindingAccountAPI) SendTransaction(x int) (int, error)        { return x, nil }
func (FindingAccountAPI) SignAndSendTransaction(x int) (int, error) { return x, nil }
func (FindingAccountAPI) ListAccounts() ([]string, error)           { return nil, nil }

type findingNode struct{ srv *Server }

// named like node.(*Node).startHTTP so that RegisterName classifies the transport as HTTP
func (n *findingNode) startHTTP() ([]string, error) {
	return n.srv.RegisterName("personal", FindingAccountAPI{})
}

func TestFindingSignAndSendExposed(t *testing.T) {
	n := &findingNode{srv: NewServer()}
	names, err := n.startHTTP()
	if err != nil {
		t.Fatal(err)
	}
	joined := strings.Join(names, ",")
	if strings.Contains(joined, "personal_sendTransaction") {
		t.Fatalf("sendTransaction should be removed on HTTP in the default environment: %v", names)
	}
	if strings.Contains(joined, "personal_signAndSendTransaction") {
		t.Fatalf("signing method still offered on HTTP without opt-in: %v", names)
	}
	if !strings.Contains(joined, "personal_listAccounts") {
		t.Fatalf("harmless method missing: %v", names)
	}
}
