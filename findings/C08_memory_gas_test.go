package vm

// Demonstration for C08 vm.memoryGasCost#post.quadratic against the real code, with the
// verifier's counterexample newMemSize = 0xe248738041 (and the boundary 2^37): the recorded total
// memory fee must equal 3*w + floor(w*w/512) for w = ceil(newMemSize/32); before the fix commit
// the 64-bit square wraps for every size above 0x1FFFFFFFE0 that the guard 0xffffffffe0 lets through.

import (
	"math/big"
	"testing"
)

func TestFindingMemoryGasCostWraps(t *testing.T) {
	for _, n := range []uint64{0xe248738041, 1 << 37, 0xffffffffe0} {
		mem := NewMemory()
		fee, err := memoryGasCost(mem, n)
		if err != nil {
			continue // rejected as overflow: acceptable
		}
		w := new(big.Int).SetUint64((n + 31) / 32)
		want := new(big.Int).Mul(w, big.NewInt(3))
		sq := new(big.Int).Mul(w, w)
		want.Add(want, sq.Div(sq, big.NewInt(512)))
		if want.Cmp(new(big.Int).SetUint64(fee)) != 0 {
			t.Errorf("memoryGasCost(%#x) = %d, specification %v", n, fee, want)
		}
	}
}
