package rlp

import (
	"fmt"
	"strings"
	"testing"
)

// replay of obligation rlp.headsize#post.1 (property C11)
func TestGovcReplay(t *testing.T) {
	var a0 uint64 = 56
	var r0 int
	_ = r0
	var panicked interface{}
	func() {
		defer func() { panicked = recover() }()
		r0 = headsize(a0)
	}()
	parts := []string{fmt.Sprintf("panicked=%t", panicked != nil)}
	parts = append(parts, fmt.Sprintf("r0=%d", r0))
	fmt.Println("GOVC-REPLAY " + strings.Join(parts, " "))
	if panicked != nil {
		fmt.Printf("GOVC-PANIC %v\n", panicked)
	}
}
