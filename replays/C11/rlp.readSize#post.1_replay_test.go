package rlp

import (
	"fmt"
	"strings"
	"testing"
)

// replay of obligation rlp.readSize#post.1 (property C11)
func TestGovcReplay(t *testing.T) {
	var a0 []byte = []byte{0,0,0,0,0,56,1,1,0}
	var a1 byte = 6
	var r0 uint64
	var r1 error
	var panicked interface{}
	func() {
		defer func() { panicked = recover() }()
		r0, r1 = readSize(a0, a1)
	}()
	parts := []string{fmt.Sprintf("panicked=%t", panicked != nil)}
	parts = append(parts, fmt.Sprintf("r0=%d", r0))
	parts = append(parts, fmt.Sprintf("r1=nil:%t", r1 == nil))
	fmt.Println("GOVC-REPLAY " + strings.Join(parts, " "))
	if panicked != nil {
		fmt.Printf("GOVC-PANIC %v\n", panicked)
	}
}
