#!/usr/bin/env python3
"""mkmut.py ID name expect file OLD NEW [count]: create selftest/mutants/ID/name.diff replacing the
literal OLD by NEW in /repo/file (OLD must occur exactly once unless count is given)."""
import sys, os, difflib
pid, name, expect, path, old, new = sys.argv[1:7]
count = int(sys.argv[7]) if len(sys.argv) > 7 else 1
src = open(os.path.join("/repo", path)).read()
if src.count(old) != count:
    sys.exit("OLD occurs %d times in %s (expected %d)" % (src.count(old), path, count))
dst = src.replace(old, new)
d = "".join(difflib.unified_diff(src.splitlines(True), dst.splitlines(True), "a/" + path, "b/" + path))
out = os.path.join(os.path.dirname(os.path.abspath(__file__)), "mutants", pid)
os.makedirs(out, exist_ok=True)
with open(os.path.join(out, name + ".diff"), "w") as f:
    f.write("# expect: %s\n" % expect)
    f.write(d)
print("wrote", os.path.join(out, name + ".diff"))
