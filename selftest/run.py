#!/usr/bin/env python3
"""Must-fail corpus: every mutant must make its property's check report a VIOLATION naming the
expected obligation; the unmodified tree must report none.  Scratch copies live under
$TMPDIR (default /tmp) and are removed immediately.

usage: run.py [ID ...] [--jobs N]
A mutant is a file selftest/mutants/<ID>/<name>.diff (git-apply format, relative to /repo) whose
leading comment lines may contain '# expect: <substring of obligation name>'.
"""
import os, sys, subprocess, tempfile, shutil, glob, json, concurrent.futures as cf

VERIF = os.path.dirname(os.path.dirname(os.path.abspath(__file__)))
REPO = os.environ.get("VERIF_REPO", "/repo")

def run_mutant(path):
    pid = os.path.basename(os.path.dirname(path))
    name = os.path.basename(path)
    expect = []
    tier = "quick"
    for line in open(path):
        if line.startswith("# expect:"):
            expect.append(line.split(":", 1)[1].strip())
        if line.startswith("# tier:"):
            tier = line.split(":", 1)[1].strip()  # clauses labelled @slow.* are thorough-tier only
    tmp = tempfile.mkdtemp(prefix="govc-mut-")
    try:
        subprocess.run(["rsync", "-a", "--exclude", ".git", REPO + "/", tmp + "/repo/"], check=True)
        r = subprocess.run(["git", "apply", "--unsafe-paths", "--directory=" + tmp + "/repo", path], cwd=tmp, capture_output=True, text=True)
        if r.returncode != 0:
            r = subprocess.run(["patch", "-p1", "-d", tmp + "/repo", "-i", path], capture_output=True, text=True)
            if r.returncode != 0:
                return (pid, name, "PATCH-FAILED", r.stdout + r.stderr)
        vdir = tmp + "/verif"
        os.makedirs(vdir)
        for f in ("props.json", "known_findings.json", "specs", "claimed", "replay", "lib"):
            src = os.path.join(VERIF, f)
            if os.path.isdir(src):
                shutil.copytree(src, os.path.join(vdir, f))
            elif os.path.exists(src):
                shutil.copy(src, vdir)
        env = dict(os.environ, GOFLAGS="-mod=mod", GOPROXY="off")
        r = subprocess.run([os.path.join(VERIF, "bin/govc"), "check", "-id", pid, "-tier", tier, "-repo", tmp + "/repo", "-verif", vdir],
                           capture_output=True, text=True, env=env, timeout=1800)
        out = r.stdout + r.stderr
        viol = [l for l in out.splitlines() if l.startswith("VIOLATION")]
        if r.returncode != 1 or not viol:
            return (pid, name, "MISSED", "exit=%d\n%s" % (r.returncode, out[-1500:]))
        if expect and not any(e in l for e in expect for l in viol):
            return (pid, name, "WRONG-OBLIGATION", "\n".join(viol))
        return (pid, name, "caught", "; ".join(l.split("obligation=")[-1] for l in viol[:3]))
    finally:
        shutil.rmtree(tmp, ignore_errors=True)

def main():
    args = [a for a in sys.argv[1:] if not a.startswith("--")]
    jobs = 4
    for a in sys.argv[1:]:
        if a.startswith("--jobs"):
            jobs = int(a.split("=")[1])
    paths = sorted(glob.glob(os.path.join(VERIF, "selftest/mutants/*/*.diff")))
    if args:
        paths = [p for p in paths if os.path.basename(os.path.dirname(p)) in args]
    bad = 0
    with cf.ThreadPoolExecutor(jobs) as ex:
        for pid, name, status, info in ex.map(run_mutant, paths):
            print("%-4s %-40s %-18s %s" % (pid, name, status, info if status == "caught" else ""))
            if status != "caught":
                bad += 1
                print("    " + info.replace("\n", "\n    "))
    print("%d mutants, %d not caught" % (len(paths), bad))
    sys.exit(1 if bad else 0)

if __name__ == "__main__":
    main()
