package discover

// Replay input preparation for decodePacket: the solver's model chooses the bytes after the
// 97-byte frame header (packet type and payload); hash and signature are abstracted in the
// proof, so the replay wraps those bytes in a correctly signed and hashed datagram, exactly as
// encodePacket does for a peer's key.

import (
	"gitlab.com/aquachain/aquachain/crypto"
)

func govcPrepare(netcompat bool, buf []byte) (bool, []byte) {
	if len(buf) < headSize+1 {
		return netcompat, buf
	}
	sigdata := buf[headSize:]
	key, err := crypto.HexToBtcec("b71c71a67e1177ad4e901695e1b4b9ee17ae16c6668d313eac2f96dbcda3f291")
	if err != nil {
		panic(err)
	}
	sig, err := crypto.Sign(crypto.Keccak256(sigdata), key)
	if err != nil {
		panic(err)
	}
	out := make([]byte, headSize+len(sigdata))
	copy(out[macSize:], sig)
	copy(out[headSize:], sigdata)
	copy(out, crypto.Keccak256(out[macSize:]))
	return netcompat, out
}
