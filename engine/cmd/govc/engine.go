package main

import (
	"fmt"
	"go/constant"
	"go/types"
	"math/big"
	"os"
	"path/filepath"
	"sort"
	"strings"

	"golang.org/x/tools/go/packages"
	"golang.org/x/tools/go/ssa"
	"golang.org/x/tools/go/ssa/ssautil"
)

type Engine struct {
	verif     string
	repo      string
	modPath   string
	prog      *ssa.Program
	pkgs      []*packages.Package
	spkgs     map[string]*ssa.Package
	allPkgs   []*types.Package
	contracts *ContractSet
	specs     *SpecLib
	frames    *FrameInfo
	funcIDs   map[*ssa.Function]int
	closures  map[*Term]*closureInfo
	closureAddrs map[closureKey]*Addr
	measures  map[*loopInfo]*Term
	topContract *Contract
	topFrame    *Frame
	inlineStack []*ssa.Function
	inlineExternal map[string]bool
	privCache      map[*ssa.Function]*privInfo
	effectReports  []*effectReport
	needStrEq bool
	allFuncs  map[*ssa.Function]bool
	sigIndex  map[string][]*ssa.Function
	implCache map[string][]*ssa.Function
	ctrCache  map[*ssa.Function]*Contract
	globals   map[*ssa.Global]*globalInfo
	initDone  map[*ssa.Package]bool
	typeNames map[string]types.Type
	constBig  map[*Term]*big.Int
	constBigInit map[*Term]string
	globalsScanned bool
	addrTaken map[*ssa.Function]bool
}

type globalInfo struct {
	immutable bool
	known     bool
	term      *Term   // value of the global (constant term)
	bigval    *big.Int // for *big.Int globals
}

func NewEngine(repo string, patterns []string) (*Engine, error) {
	eng := &Engine{repo: repo, spkgs: map[string]*ssa.Package{}, funcIDs: map[*ssa.Function]int{}, closures: map[*Term]*closureInfo{},
		closureAddrs: map[closureKey]*Addr{}, measures: map[*loopInfo]*Term{}, inlineExternal: map[string]bool{"encoding/binary": true}, // byte-order helpers: the standard library source itself is executed symbolically
		implCache: map[string][]*ssa.Function{}, ctrCache: map[*ssa.Function]*Contract{}, globals: map[*ssa.Global]*globalInfo{},
		initDone: map[*ssa.Package]bool{}, typeNames: map[string]types.Type{}, constBig: map[*Term]*big.Int{}, constBigInit: map[*Term]string{}}
	cfg := &packages.Config{Mode: packages.LoadAllSyntax, Dir: repo, BuildFlags: []string{"-tags=verif", "-mod=mod"},
		Env: append(os.Environ(), "GOFLAGS=-mod=mod", "GOPROXY=off")}
	pkgs, err := packages.Load(cfg, patterns...)
	if err != nil {
		return nil, err
	}
	nerr := 0
	packages.Visit(pkgs, nil, func(p *packages.Package) {
		for _, e := range p.Errors {
			if nerr < 10 {
				fmt.Fprintf(os.Stderr, "load error: %v\n", e)
			}
			nerr++
		}
	})
	if nerr > 0 {
		return nil, fmt.Errorf("%d package load errors", nerr)
	}
	eng.pkgs = pkgs
	prog, _ := ssautil.AllPackages(pkgs, ssa.GlobalDebug|ssa.InstantiateGenerics)
	prog.Build()
	eng.prog = prog
	for _, p := range prog.AllPackages() {
		eng.spkgs[p.Pkg.Path()] = p
		eng.allPkgs = append(eng.allPkgs, p.Pkg)
	}
	sort.Slice(eng.allPkgs, func(i, j int) bool { return eng.allPkgs[i].Path() < eng.allPkgs[j].Path() })
	if len(pkgs) > 0 && pkgs[0].Module != nil {
		eng.modPath = pkgs[0].Module.Path
	} else {
		eng.modPath = "gitlab.com/aquachain/aquachain"
	}
	eng.frames = &FrameInfo{eng: eng, direct: map[*ssa.Function]map[string]bool{}, trans: map[*ssa.Function]map[string]bool{}, callees: map[*ssa.Function][]*ssa.Function{}}
	eng.allFuncs = ssautil.AllFunctions(prog)
	// contracts: every verif_contracts.go of module packages that were loaded
	eng.contracts = &ContractSet{byKey: map[string]*Contract{}, ghosts: map[string]*GhostDecl{}}
	for path := range eng.spkgs {
		if !strings.HasPrefix(path, eng.modPath) {
			continue
		}
		rel := strings.TrimPrefix(strings.TrimPrefix(path, eng.modPath), "/")
		files, _ := filepath.Glob(filepath.Join(repo, rel, "verif_contracts*.go"))
		sort.Strings(files)
		for _, f := range files {
			if err := eng.contracts.LoadFile(path, f); err != nil {
				return nil, err
			}
		}
	}
	return eng, nil
}

func (eng *Engine) pkgByPath(path string) *types.Package {
	if p := eng.spkgs[path]; p != nil {
		return p.Pkg
	}
	return nil
}

func contractKey(f *ssa.Function) string {
	if f.Signature != nil && f.Signature.Recv() != nil {
		rt := f.Signature.Recv().Type()
		if p, ok := rt.(*types.Pointer); ok {
			rt = p.Elem()
		}
		if n, ok := rt.(*types.Named); ok {
			return n.Obj().Name() + "." + f.Name()
		}
	}
	if f.Parent() != nil {
		return contractKey(f.Parent()) + "$" + strings.TrimPrefix(f.Name(), f.Parent().Name()+"$")
	}
	return f.Name()
}

func (eng *Engine) contractOf(f *ssa.Function) *Contract {
	if c, ok := eng.ctrCache[f]; ok {
		return c
	}
	var c *Contract
	if pp := funcPkgPath(f); pp != "" {
		c = eng.contracts.byKey[pp+"::"+contractKey(f)]
	}
	eng.ctrCache[f] = c
	return c
}

// typeContract: contract attached to a named func type ("type executionFunc") or an
// interface method ("type StateDB.AddBalance").
func (eng *Engine) typeContract(t types.Type, method string) *Contract {
	n, ok := t.(*types.Named)
	if !ok || n.Obj().Pkg() == nil {
		return nil
	}
	key := n.Obj().Name()
	if method != "" {
		key += "." + method
	}
	c := eng.contracts.byKey[n.Obj().Pkg().Path()+"::"+key]
	if c != nil && c.isType {
		return c
	}
	return nil
}

func (eng *Engine) lookupTypeByName(name string) types.Type {
	if t, ok := eng.typeNames[name]; ok {
		return t
	}
	if strings.HasPrefix(name, "[]") {
		// slice of a nameable type: []byte, []*types.Header
		if et := eng.lookupTypeByName(name[2:]); et != nil {
			res := types.NewSlice(et)
			eng.typeNames[name] = res
			return res
		}
		return nil
	}
	ptr := strings.HasPrefix(name, "*")
	nm := strings.TrimPrefix(name, "*")
	i := strings.LastIndex(nm, ".")
	var res types.Type
	if i > 0 {
		pk, tn := nm[:i], nm[i+1:]
		for _, p := range eng.allPkgs {
			if p.Name() == pk || p.Path() == pk {
				if o := p.Scope().Lookup(tn); o != nil {
					if _, ok := o.(*types.TypeName); ok {
						res = o.Type()
						break
					}
				}
			}
		}
	} else {
		res = basicType(nm)
	}
	if res != nil && ptr {
		res = types.NewPointer(res)
	}
	eng.typeNames[name] = res
	return res
}

func sigKey(sig *types.Signature) string {
	var sb strings.Builder
	ps := sig.Params()
	for i := 0; i < ps.Len(); i++ {
		sb.WriteString(typeKey(ps.At(i).Type()))
		sb.WriteString(",")
	}
	sb.WriteString("->")
	rs := sig.Results()
	for i := 0; i < rs.Len(); i++ {
		sb.WriteString(typeKey(rs.At(i).Type()))
		sb.WriteString(",")
	}
	if sig.Variadic() {
		sb.WriteString("...")
	}
	return sb.String()
}

// funcsBySig: module functions whose address is taken somewhere and whose signature matches.
func (eng *Engine) funcsBySig(sig *types.Signature) []*ssa.Function {
	if eng.sigIndex == nil {
		eng.sigIndex = map[string][]*ssa.Function{}
		eng.addrTaken = map[*ssa.Function]bool{}
		for f := range eng.allFuncs {
			if !eng.inModule(f) {
				continue
			}
			for _, b := range f.Blocks {
				for _, in := range b.Instrs {
					var ops []*ssa.Value
					ops = in.Operands(ops)
					for k, op := range ops {
						if op == nil || *op == nil {
							continue
						}
						// skip the callee position of a static call
						if call, ok := in.(ssa.CallInstruction); ok && k == 0 && !call.Common().IsInvoke() {
							if _, isF := (*op).(*ssa.Function); isF {
								continue
							}
						}
						switch g := (*op).(type) {
						case *ssa.Function:
							eng.addrTaken[g] = true
						case *ssa.MakeClosure:
							eng.addrTaken[g.Fn.(*ssa.Function)] = true
						}
					}
				}
			}
		}
		for f := range eng.addrTaken {
			if f.Signature == nil {
				continue
			}
			sg := f.Signature
			if sg.Recv() != nil {
				continue
			}
			k := sigKey(sg)
			eng.sigIndex[k] = append(eng.sigIndex[k], f)
		}
		for k := range eng.sigIndex {
			fs := eng.sigIndex[k]
			sort.Slice(fs, func(i, j int) bool { return fs[i].String() < fs[j].String() })
		}
	}
	return eng.sigIndex[sigKey(sig)]
}

// implementations: module methods that may be the target of an interface call.
func (eng *Engine) implementations(iface types.Type, m *types.Func) []*ssa.Function {
	key := typeKey(iface) + "#" + m.Name()
	if r, ok := eng.implCache[key]; ok {
		return r
	}
	it, ok := iface.Underlying().(*types.Interface)
	var out []*ssa.Function
	if ok {
		seen := map[*ssa.Function]bool{}
		for _, p := range eng.allPkgs {
			if !strings.HasPrefix(p.Path(), eng.modPath) {
				continue
			}
			sc := p.Scope()
			for _, name := range sc.Names() {
				tn, ok := sc.Lookup(name).(*types.TypeName)
				if !ok || tn.IsAlias() {
					continue
				}
				T := tn.Type()
				if _, isI := T.Underlying().(*types.Interface); isI {
					continue
				}
				for _, cand := range []types.Type{T, types.NewPointer(T)} {
					if types.Implements(cand, it) {
						if f := eng.prog.LookupMethod(cand, m.Pkg(), m.Name()); f != nil && !seen[f] {
							seen[f] = true
							out = append(out, f)
						}
					}
				}
			}
		}
		sort.Slice(out, func(i, j int) bool { return out[i].String() < out[j].String() })
	}
	eng.implCache[key] = out
	return out
}

func (eng *Engine) implementsTerm(fc *FuncCtx, tag *Term, iface types.Type) *Term {
	it := iface.Underlying().(*types.Interface)
	var alts []*Term
	for i, t := range TR.idTypes {
		if types.Implements(t, it) {
			alts = append(alts, Eq(tag, IntLit64(int64(i+1))))
		}
	}
	unknown := fc.fresh("implements", SBool)
	// tags not yet registered are undetermined; nil never implements
	return And(Not(Eq(tag, IntLit64(0))), Or(append(alts, unknown)...))
}

// noteAlloc: every make([]T, n) executed by the function under contract (or inlined into it)
// must satisfy the contract's allocbound clauses, with $n bound to the requested length.
func (eng *Engine) noteAlloc(fr *Frame, st *State, in ssa.Instruction, n *Term) {
	c := eng.topContract
	if c == nil || len(c.allocs) == 0 {
		return
	}
	fc := fr.fc
	for i, cl := range c.allocs {
		env := fr.newEnv(st, fc.entry)
		env.vars["$n"] = envVar{t: n, ty: types.Typ[types.Int]}
		if !fr.isTop {
			// names of the top-level function are not visible inside an inlined callee:
			// evaluate against the top frame's parameters
			env = eng.topFrame.newEnv(st, fc.entry)
			env.vars["$n"] = envVar{t: n, ty: types.Typ[types.Int]}
		}
		g := env.boolExpr(cl.expr)
		fc.oblige(fc.site(fmt.Sprintf("%s#alloc.%d", fc.fn, i+1)), "alloc", cl.ids, st.pc, g, cl, "allocation bound: "+cl.text+fr.posOf(in))
	}
}

func constBig(c *types.Const) (*big.Int, bool) {
	v := constant.ToInt(c.Val())
	if v.Kind() != constant.Int {
		return nil, false
	}
	if b, ok := constant.Val(v).(*big.Int); ok {
		return b, true
	}
	if i, ok := constant.Int64Val(v); ok {
		return big.NewInt(i), true
	}
	return nil, false
}

// ---------------------------------------------------------------------------------------
// globals

// scanGlobals marks every global that is stored to (or whose address escapes) outside its
// package initialiser as mutable.
func (eng *Engine) scanGlobals() {
	if eng.globalsScanned {
		return
	}
	eng.globalsScanned = true
	mut := func(g *ssa.Global) {
		gi := eng.globals[g]
		if gi == nil {
			gi = &globalInfo{immutable: true}
			eng.globals[g] = gi
		}
		gi.immutable = false
	}
	for f := range eng.allFuncs {
		isInit := f.Pkg != nil && f == f.Pkg.Func("init")
		for _, b := range f.Blocks {
			for _, in := range b.Instrs {
				switch x := in.(type) {
				case *ssa.Store:
					r, _ := rootOf(x.Addr)
					if g, ok := r.(*ssa.Global); ok && !(isInit && g.Pkg == f.Pkg) {
						mut(g)
					}
					if g, ok := x.Val.(*ssa.Global); ok {
						mut(g)
					}
				case *ssa.UnOp, *ssa.FieldAddr, *ssa.IndexAddr, *ssa.DebugRef:
				default:
					var ops []*ssa.Value
					for _, op := range in.Operands(ops) {
						if op != nil && *op != nil {
							if g, ok := (*op).(*ssa.Global); ok {
								mut(g)
							}
						}
					}
				}
			}
		}
	}
}

func (eng *Engine) globalInfoOf(g *ssa.Global) *globalInfo {
	eng.scanGlobals()
	if gi, ok := eng.globals[g]; ok {
		return gi
	}
	gi := &globalInfo{immutable: true}
	eng.globals[g] = gi
	return gi
}

// loadGlobal reads global g in state st. Immutable globals whose initial value could be
// computed from the package initialiser are returned as constants.
func (eng *Engine) loadGlobal(fr *Frame, st *State, g *ssa.Global, a *Addr) *Term {
	fc := fr.fc
	gi := eng.globalInfoOf(g)
	if gi.immutable {
		eng.evalInit(g.Pkg)
		if gi.known {
			if gi.bigval != nil {
				fc.usedConsts[gi.term] = true
				fc.assume(True, And(Op(">", SBool, gi.term, IntLit64(0)), Op("<=", SBool, gi.term, fc.entry.alloc)))
			}
			return gi.term
		}
		// immutable but unknown: a fixed constant per global
		if os.Getenv("GOVC_DEBUG") != "" {
			fmt.Fprintf(os.Stderr, "global %s.%s: immutable, initial value not computed\n", g.Pkg.Pkg.Path(), g.Name())
		}
		t := Const("gconst!"+sanitize(g.Pkg.Pkg.Path()+"."+g.Name()), a.csort)
		if a.csort == SRef {
			fc.assume(True, And(Op(">=", SBool, t, IntLit64(0)), Op("<=", SBool, t, fc.entry.alloc)))
		}
		return t
	}
	return fc.load(st, a)
}

// evalInit symbolically executes the package initialiser to learn constant globals.
func (eng *Engine) evalInit(p *ssa.Package) {
	if eng.initDone[p] {
		return
	}
	eng.initDone[p] = true
	init := p.Func("init")
	if init == nil || len(init.Blocks) == 0 {
		return
	}
	defer func() {
		if r := recover(); r != nil {
			if os.Getenv("GOVC_DEBUG") != "" {
				fmt.Fprintf(os.Stderr, "evalInit %s: %v\n", p.Pkg.Path(), r)
			}
		}
	}()
	savedTop := eng.topContract
	savedStack := eng.inlineStack
	eng.topContract = nil
	eng.inlineStack = nil
	defer func() { eng.topContract = savedTop; eng.inlineStack = savedStack }()
	fc := eng.newFuncCtx("init:" + p.Pkg.Path())
	fc.initMode = true
	fr := &Frame{fc: fc, fn: init, vals: map[ssa.Value]*Term{}, tuples: map[ssa.Value][]*Term{}, addrs: map[ssa.Value]*Addr{}, isTop: true}
	st := &State{pc: True, heap: map[string]*Term{}, alloc: IntLit64(0)}
	fc.heapSorts["G:"+p.Pkg.Path()+".init$guard"] = SBool
	st.heap["G:"+p.Pkg.Path()+".init$guard"] = False
	fc.entry = st.clone()
	exit := fr.execInit(st)
	names := make([]string, 0)
	for n := range p.Members {
		names = append(names, n)
	}
	sort.Strings(names)
	for _, n := range names {
		g, ok := p.Members[n].(*ssa.Global)
		if !ok {
			continue
		}
		gi := eng.globalInfoOf(g)
		if !gi.immutable {
			continue
		}
		key := "G:" + p.Pkg.Path() + "." + g.Name()
		v, ok := exit.heap[key]
		if !ok {
			continue
		}
		pt := g.Type().(*types.Pointer).Elem()
		switch {
		case isBigIntPtr(pt) && eng.constBig[v] != nil:
			// initialised with another package's constant: the same object
			gi.known = true
			gi.term = v
			gi.bigval = eng.constBig[v]
		case isBigIntPtr(pt):
			bv := Select(fc.get(exit, "big", bigSort), v)
			if os.Getenv("GOVC_DEBUG") != "" && !(bv.IsLit() && bv.val != nil) {
				fmt.Fprintf(os.Stderr, "evalInit %s.%s: ref %s value %s\n", p.Pkg.Path(), g.Name(), v.Short(), bv.Short())
			}
			if bv.IsLit() && bv.val != nil && v != NilRef {
				gi.known = true
				// globals holding the same pointer share one constant; different allocations differ
				gi.term = Const(fmt.Sprintf("gref!%s.%s#%s", sanitize(p.Pkg.Path()), g.Name(), v.name), SRef)
				for t, old := range eng.constBigInit {
					if old == p.Pkg.Path()+"#"+v.name {
						gi.term = t
					}
				}
				eng.constBigInit[gi.term] = p.Pkg.Path() + "#" + v.name
				gi.bigval = bv.val
				eng.constBig[gi.term] = bv.val
			}
		case isErrorType(pt):
			if v.op == "app" && v.name == "mk_Iface" && v.args[0].IsLit() {
				gi.known = true
				gi.term = MkIface(v.args[0], Const("gerr!"+sanitize(p.Pkg.Path()+"."+g.Name()), SRef))
			}
		default:
			// plain values only: a reference computed by the initialiser is an artefact of
			// its allocation numbering and must not leak as a literal
			if v.IsLit() && (v.sort.IsBV() || v.sort == SBool) {
				gi.known = true
				gi.term = v
			}
			// a function-valued variable initialised with a named function
			if _, isSig := pt.Underlying().(*types.Signature); isSig && v.IsLit() && v.val != nil && v.val.Cmp(big.NewInt(1000000)) >= 0 {
				gi.known = true
				gi.term = v
			}
		}
	}
}

// execInit runs the blocks of an init function, skipping calls to other packages' init.
func (fr *Frame) execInit(st *State) *State {
	exit, _ := fr.exec(st)
	return exit
}

func (eng *Engine) newFuncCtx(name string) *FuncCtx {
	return &FuncCtx{eng: eng, fn: name, heapSorts: map[string]Sort{}, notes: map[string]bool{}, inlined: map[string]bool{}, opaque: map[string]bool{},
		usedCtr: map[string]bool{}, trusted: map[string]bool{}, siteN: map[string]int{}, usedConsts: map[*Term]bool{}, closed: map[string]bool{}, safeAssump: map[int]bool{}}
}
