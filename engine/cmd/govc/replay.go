package main

// Lemma obligations and counterexample replay against the real code.

import (
	"fmt"
)

func Raw(text string, s Sort) *Term { return P.mk("raw", text, s) }

// lemmaObligations turns every ";;@lemma[ids] name" of the spec library that names property id
// into an obligation: the lemma term must be valid given the library's definitions and axioms.
func (eng *Engine) lemmaObligations(id string) *FuncResult {
	var fc *FuncCtx
	for _, lm := range eng.specs.lemmas {
		if !hasID(lm.ids, id) {
			continue
		}
		if fc == nil {
			fc = eng.newFuncCtx("lemmas")
			fc.entry = &State{pc: True, heap: map[string]*Term{}, alloc: IntLit64(0)}
		}
		fc.oblige("lemma:"+lm.name, "lemma", lm.ids, True, Raw(lm.text, SBool), nil, fmt.Sprintf("lemma %s (%s)", lm.name, lm.file))
	}
	if fc == nil {
		return nil
	}
	return &FuncResult{name: "lemmas", fc: fc}
}

// tryReplay builds and runs a test against the real code from the solver's model when the
// function's parameter shapes are supported; returns text appended to the replay file.
func tryReplay(eng *Engine, dir, id string, o *Obligation) string {
	return replayGeneric(eng, dir, id, o)
}

func replayGeneric(eng *Engine, dir, id string, o *Obligation) string { return "" }
