package main

// Lemma obligations and counterexample replay against the real code.

import (
	"bytes"
	"context"
	"encoding/json"
	"fmt"
	"go/types"
	"math/big"
	"os"
	"os/exec"
	"path/filepath"
	"regexp"
	"strings"
	"time"

	"golang.org/x/tools/go/ssa"
)

func Raw(text string, s Sort) *Term { return P.mk("raw", text, s) }

// lemmaObligations turns every ";;@lemma[ids] name" of the spec library that names property id
// into an obligation: the lemma term must be valid given the library's definitions and axioms.
func (eng *Engine) lemmaObligations(id string) *FuncResult {
	var fc *FuncCtx
	for _, lm := range eng.specs.lemmas {
		if !hasID(lm.ids, id) {
			continue
		}
		if fc == nil {
			fc = eng.newFuncCtx("lemmas")
			fc.entry = &State{pc: True, heap: map[string]*Term{}, alloc: IntLit64(0)}
		}
		fc.oblige("lemma:"+lm.name, "lemma", lm.ids, True, Raw(lm.text, SBool), nil, fmt.Sprintf("lemma %s (%s)", lm.name, lm.file))
	}
	if fc == nil {
		return nil
	}
	return &FuncResult{name: "lemmas", fc: fc}
}

// ---------------------------------------------------------------------------------------
// Replay: run the real function on the solver's inputs and compare what it does with what the
// solver's model predicts (results, or a panic for safe.* obligations).

const replayElems = 128

type replayPlan struct {
	fn      *ssa.Function
	inputs  []replayVal // per parameter
	results []replayVal // per result (post obligations)
	ok      bool
	why     string
}

type replayVal struct {
	name  string
	typ   types.Type
	terms []*Term // terms whose model values are needed
	kind  string  // int bool bytes string big err skip
}

var replayCount = 0

func shapeOf(t types.Type) string {
	switch u := t.Underlying().(type) {
	case *types.Basic:
		if n, _ := intBits(u); n > 0 {
			return "int"
		}
		switch u.Kind() {
		case types.Bool:
			return "bool"
		case types.String:
			return "string"
		}
	case *types.Slice:
		if b, ok := u.Elem().Underlying().(*types.Basic); ok && b.Kind() == types.Uint8 {
			return "bytes"
		}
	case *types.Pointer:
		if isBigInt(u.Elem()) {
			return "big"
		}
	case *types.Interface:
		if isErrorType(t) {
			return "err"
		}
	}
	return ""
}

// planReplay attaches the terms needed for a replay to the obligation (before solving).
func (eng *Engine) planReplay(fr *Frame, fc *FuncCtx, o *Obligation, results []*Term) {
	f := fr.fn
	if f.Signature.Recv() != nil || f.Parent() != nil {
		return
	}
	plan := &replayPlan{fn: f, ok: true}
	byteCls := elemClass(types.Typ[types.Byte])
	h0 := fc.heapInit(byteCls, elemClassSort(types.Typ[types.Byte]))
	big0 := fc.heapInit("big", bigSort)
	for _, p := range f.Params {
		v := replayVal{name: p.Name(), typ: p.Type(), kind: shapeOf(p.Type())}
		t := fr.vals[p]
		switch v.kind {
		case "int", "bool":
			v.terms = []*Term{t}
		case "bytes":
			o.small = append(o.small, bvCmp("bvule", SlLen(t), BVLit64(128, 64)))
			v.terms = []*Term{SlLen(t), SlCap(t), SlArr(t)}
			row := Select(h0, SlArr(t))
			for k := 0; k < replayElems; k++ {
				v.terms = append(v.terms, Select(row, bvBin("bvadd", SlOff(t), BVLit64(uint64(k), 64))))
			}
		case "string":
			o.small = append(o.small, bvCmp("bvule", StrLen(t), BVLit64(128, 64)))
			v.terms = []*Term{StrLen(t)}
			for k := 0; k < replayElems; k++ {
				v.terms = append(v.terms, Select(StrData(t), BVLit64(uint64(k), 64)))
			}
		case "big":
			v.terms = []*Term{t, Select(big0, t)}
		default:
			plan.ok = false
			plan.why = "parameter " + p.Name() + " of type " + typeName(p.Type()) + " has no input builder"
		}
		plan.inputs = append(plan.inputs, v)
	}
	if o.kind == "post" && results != nil {
		rs := f.Signature.Results()
		for i := 0; i < rs.Len() && i < len(results); i++ {
			v := replayVal{name: fmt.Sprintf("r%d", i), typ: rs.At(i).Type(), kind: shapeOf(rs.At(i).Type())}
			switch v.kind {
			case "int", "bool":
				v.terms = []*Term{results[i]}
			case "err":
				v.terms = []*Term{IfTag(results[i])}
			case "bytes":
				v.terms = []*Term{SlLen(results[i])}
			default:
				v.kind = "skip"
			}
			plan.results = append(plan.results, v)
		}
	}
	o.plan = plan
	if !plan.ok {
		return
	}
	o.params = nil
	o.pnames = nil
	add := func(prefix string, vs []replayVal) {
		for _, v := range vs {
			for k, t := range v.terms {
				o.params = append(o.params, t)
				o.pnames = append(o.pnames, fmt.Sprintf("%s%s#%d", prefix, v.name, k))
			}
		}
	}
	add("in:", plan.inputs)
	add("out:", plan.results)
}

func smtNum(s string) (*big.Int, bool) {
	s = strings.TrimSpace(s)
	switch {
	case strings.HasPrefix(s, "#x"):
		v, ok := new(big.Int).SetString(s[2:], 16)
		return v, ok
	case strings.HasPrefix(s, "#b"):
		v, ok := new(big.Int).SetString(s[2:], 2)
		return v, ok
	case strings.HasPrefix(s, "(_ bv"):
		f := strings.Fields(s[5:])
		v, ok := new(big.Int).SetString(f[0], 10)
		return v, ok
	case strings.HasPrefix(s, "(-"):
		v, ok := new(big.Int).SetString(strings.TrimSpace(strings.Trim(s[2:], "() ")), 10)
		if ok {
			v.Neg(v)
		}
		return v, ok
	}
	v, ok := new(big.Int).SetString(s, 10)
	return v, ok
}

func tryReplay(eng *Engine, dir, id string, o *Obligation) string {
	if o.status != "failed" || o.plan == nil {
		return ""
	}
	plan := o.plan
	if !plan.ok {
		return "replay: not attempted: " + plan.why + "\n"
	}
	if replayCount >= 4 {
		return "replay: not attempted (limit of 4 replays per run reached)\n"
	}
	if o.kind != "post" && o.kind != "safe" {
		return "replay: not attempted for obligation kind " + o.kind + "\n"
	}
	get := func(name string, k int) (*big.Int, string, bool) {
		s, ok := o.model[fmt.Sprintf("%s#%d", name, k)]
		if !ok {
			return nil, "", false
		}
		v, okn := smtNum(s)
		return v, s, okn
	}
	f := plan.fn
	pkg := f.Pkg.Pkg
	qual := func(p *types.Package) string {
		if p == pkg {
			return ""
		}
		return p.Name()
	}
	var body strings.Builder
	var callArgs []string
	needBig := false
	for i, in := range plan.inputs {
		vn := fmt.Sprintf("a%d", i)
		tn := types.TypeString(in.typ, qual)
		if strings.Contains(tn, ".") && !strings.HasPrefix(tn, "big.") {
			return "replay: not attempted: parameter type " + tn + " needs an import\n"
		}
		switch in.kind {
		case "int":
			v, _, ok := get("in:"+in.name, 0)
			if !ok {
				return "replay: model value missing for " + in.name + "\n"
			}
			if isSigned(in.typ) {
				v = toSigned(v, SortOf(in.typ).Bits())
			}
			fmt.Fprintf(&body, "\tvar %s %s = %s\n", vn, tn, v.String())
		case "bool":
			_, s, _ := get("in:"+in.name, 0)
			fmt.Fprintf(&body, "\tvar %s %s = %s\n", vn, tn, strings.TrimSpace(s))
		case "bytes", "string":
			ln, _, ok := get("in:"+in.name, 0)
			if !ok {
				return "replay: model value missing for " + in.name + "\n"
			}
			first := 3
			if in.kind == "string" {
				first = 1
			}
			n := int(toSigned(ln, 64).Int64())
			if n < 0 || n > 1<<16 {
				return fmt.Sprintf("replay: not attempted: model length %d of %s is out of replay range\n", n, in.name)
			}
			var bs []string
			for k := 0; k < n; k++ {
				b := big.NewInt(0)
				if k < replayElems {
					if v, _, ok := get("in:"+in.name, first+k); ok {
						b = v
					}
				}
				bs = append(bs, b.String())
			}
			isNil := false
			if in.kind == "bytes" {
				if arr, _, ok := get("in:"+in.name, 2); ok && arr.Sign() == 0 {
					isNil = true
				}
			}
			if in.kind == "string" {
				fmt.Fprintf(&body, "\tvar %s %s = %s(string([]byte{%s}))\n", vn, tn, tn, strings.Join(bs, ","))
			} else if isNil {
				fmt.Fprintf(&body, "\tvar %s %s\n", vn, tn)
			} else {
				fmt.Fprintf(&body, "\tvar %s %s = %s{%s}\n", vn, tn, tn, strings.Join(bs, ","))
			}
		case "big":
			ref, _, _ := get("in:"+in.name, 0)
			v, _, ok := get("in:"+in.name, 1)
			needBig = true
			if ref != nil && ref.Sign() == 0 {
				fmt.Fprintf(&body, "\tvar %s *big.Int\n", vn)
			} else if ok {
				fmt.Fprintf(&body, "\t%s, _ := new(big.Int).SetString(\"%s\", 10)\n", vn, v.String())
			} else {
				return "replay: model value missing for " + in.name + "\n"
			}
		}
		callArgs = append(callArgs, vn)
	}
	if f.Signature.Variadic() {
		callArgs[len(callArgs)-1] += "..."
	}
	var rnames []string
	rs := f.Signature.Results()
	var prints []string
	for i := 0; i < rs.Len(); i++ {
		rn := fmt.Sprintf("r%d", i)
		rnames = append(rnames, rn)
		tn := types.TypeString(rs.At(i).Type(), qual)
		fmt.Fprintf(&body, "\tvar %s %s\n\t_ = %s\n", rn, tn, rn)
		switch shapeOf(rs.At(i).Type()) {
		case "int":
			prints = append(prints, fmt.Sprintf("fmt.Sprintf(\"r%d=%%d\", %s)", i, rn))
		case "bool":
			prints = append(prints, fmt.Sprintf("fmt.Sprintf(\"r%d=%%t\", %s)", i, rn))
		case "err":
			prints = append(prints, fmt.Sprintf("fmt.Sprintf(\"r%d=nil:%%t\", %s == nil)", i, rn))
		case "bytes":
			prints = append(prints, fmt.Sprintf("fmt.Sprintf(\"r%d=len:%%d\", len(%s))", i, rn))
		default:
			prints = append(prints, fmt.Sprintf("\"r%d=?\"", i))
		}
		if strings.Contains(tn, ".") && !strings.HasPrefix(tn, "big.") {
			return "replay: not attempted: result type " + tn + " needs an import\n"
		}
	}
	call := fmt.Sprintf("%s(%s)", f.Name(), strings.Join(callArgs, ", "))
	if len(rnames) > 0 {
		call = strings.Join(rnames, ", ") + " = " + call
	}
	var src strings.Builder
	fmt.Fprintf(&src, "package %s\n\nimport (\n\t\"fmt\"\n\t\"strings\"\n\t\"testing\"\n", pkg.Name())
	if needBig {
		src.WriteString("\t\"math/big\"\n")
	}
	src.WriteString(")\n\n")
	fmt.Fprintf(&src, "// replay of obligation %s (property %s)\nfunc TestGovcReplay(t *testing.T) {\n", o.name, id)
	src.WriteString(body.String())
	// optional input preparation (e.g. wrap model bytes in a correctly hashed and signed packet):
	// /verif/replay/<pkg>.<func>.go defines govcPrepare with the function's parameter list
	prep := filepath.Join(eng.verif, "replay", shortPkg(pkg.Path())+"."+f.Name()+".go")
	havePrep := false
	if _, err := os.Stat(prep); err == nil {
		havePrep = true
		var as []string
		for i := range plan.inputs {
			as = append(as, fmt.Sprintf("a%d", i))
		}
		fmt.Fprintf(&src, "\t%s = govcPrepare(%s)\n", strings.Join(as, ", "), strings.Join(as, ", "))
	}
	src.WriteString("\tvar panicked interface{}\n\tfunc() {\n\t\tdefer func() { panicked = recover() }()\n\t\t" + call + "\n\t}()\n")
	src.WriteString("\tparts := []string{fmt.Sprintf(\"panicked=%t\", panicked != nil)}\n")
	for _, p := range prints {
		src.WriteString("\tparts = append(parts, " + p + ")\n")
	}
	src.WriteString("\tfmt.Println(\"GOVC-REPLAY \" + strings.Join(parts, \" \"))\n\tif panicked != nil {\n\t\tfmt.Printf(\"GOVC-PANIC %v\\n\", panicked)\n\t}\n}\n")
	for _, rn := range rnames {
		_ = rn
	}
	testFile := filepath.Join(dir, sanitizeFile(o.name)+"_replay_test.go")
	os.WriteFile(testFile, []byte(src.String()), 0o644)
	rel := strings.TrimPrefix(strings.TrimPrefix(pkg.Path(), eng.modPath), "/")
	target := filepath.Join(eng.repo, rel, "zz_govc_replay_test.go")
	repl := map[string]string{target: testFile}
	if havePrep {
		repl[filepath.Join(eng.repo, rel, "zz_govc_prepare_test.go")] = prep
	}
	ov, _ := json.Marshal(map[string]map[string]string{"Replace": repl})
	ovFile := filepath.Join(dir, sanitizeFile(o.name)+".overlay.json")
	os.WriteFile(ovFile, ov, 0o644)
	replayCount++
	ctx, cancel := context.WithTimeout(context.Background(), 180*time.Second)
	defer cancel()
	cmd := exec.CommandContext(ctx, "go", "test", "-mod=mod", "-overlay", ovFile, "-vet=off", "-v", "-count=1", "-timeout", "60s", "-run", "^TestGovcReplay$", "./"+rel+"/")
	cmd.Dir = eng.repo
	cmd.Env = append(os.Environ(), "GOFLAGS=-mod=mod", "GOPROXY=off")
	var out bytes.Buffer
	cmd.Stdout = &out
	cmd.Stderr = &out
	cmd.Run()
	res := out.String()
	var sb strings.Builder
	fmt.Fprintf(&sb, "replay test: %s\nreplay command: (cd %s && go test -mod=mod -overlay %s -vet=off -v -count=1 -timeout 60s -run '^TestGovcReplay$' ./%s/)\n", testFile, eng.repo, ovFile, rel)
	m := regexp.MustCompile(`GOVC-REPLAY (.*)`).FindStringSubmatch(res)
	if m == nil {
		fmt.Fprintf(&sb, "replay: the test did not produce a result:\n%s\n", firstLines(res, 20))
		return sb.String()
	}
	fmt.Fprintf(&sb, "replay: real code returned: %s\n", m[1])
	got := map[string]string{}
	for _, kv := range strings.Fields(m[1]) {
		if i := strings.Index(kv, "="); i > 0 {
			got[kv[:i]] = kv[i+1:]
		}
	}
	if o.kind == "safe" {
		if got["panicked"] == "true" {
			o.replayed = true
			fmt.Fprintf(&sb, "replay: CONFIRMED: the real function panics on the solver's input (%s)\n", firstLines(res[strings.Index(res, "GOVC-PANIC"):], 1))
		} else {
			sb.WriteString("replay: the real function did not panic on this input (the model depends on abstracted values)\n")
		}
		return sb.String()
	}
	// post: the real results must coincide with the model's results (which violate the clause)
	if got["panicked"] == "true" {
		sb.WriteString("replay: the real function panicked instead of returning\n")
		return sb.String()
	}
	match, compared := true, 0
	for i, rv := range plan.results {
		key := fmt.Sprintf("r%d", i)
		switch rv.kind {
		case "int":
			v, _, ok := get("out:"+rv.name, 0)
			if !ok {
				continue
			}
			if isSigned(rv.typ) {
				v = toSigned(v, SortOf(rv.typ).Bits())
			}
			compared++
			if got[key] != v.String() {
				match = false
				fmt.Fprintf(&sb, "replay: result %d: model predicts %s, real code gives %s\n", i, v.String(), got[key])
			}
		case "bool":
			_, s, ok := get("out:"+rv.name, 0)
			if !ok {
				continue
			}
			compared++
			if got[key] != strings.TrimSpace(s) {
				match = false
				fmt.Fprintf(&sb, "replay: result %d: model predicts %s, real code gives %s\n", i, s, got[key])
			}
		case "err":
			v, _, ok := get("out:"+rv.name, 0)
			if !ok {
				continue
			}
			compared++
			want := fmt.Sprintf("nil:%t", v.Sign() == 0)
			if got[key] != want {
				match = false
				fmt.Fprintf(&sb, "replay: result %d: model predicts %s, real code gives %s\n", i, want, got[key])
			}
		case "bytes":
			v, _, ok := get("out:"+rv.name, 0)
			if !ok {
				continue
			}
			compared++
			want := "len:" + toSigned(v, 64).String()
			if got[key] != want {
				match = false
				fmt.Fprintf(&sb, "replay: result %d: model predicts %s, real code gives %s\n", i, want, got[key])
			}
		}
	}
	if match && compared > 0 {
		o.replayed = true
		sb.WriteString("replay: CONFIRMED: the real function returns exactly the results of the solver's counterexample, which violate the clause\n")
	} else if compared == 0 {
		sb.WriteString("replay: no comparable result values\n")
	}
	return sb.String()
}
