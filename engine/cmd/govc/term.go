package main

// SMT term DAG with hash-consing, light simplification and SMT-LIB printing.

import (
	"fmt"
	"math/big"
	"sort"
	"strings"
)

type Sort string

const (
	SBool Sort = "Bool"
	SInt  Sort = "Int"
	SStr  Sort = "Str"
	SF64  Sort = "F64"
)

func SBV(n int) Sort { return Sort(fmt.Sprintf("(_ BitVec %d)", n)) }
func SArr(i, e Sort) Sort {
	return Sort("(Array " + string(i) + " " + string(e) + ")")
}
func (s Sort) IsBV() bool { return strings.HasPrefix(string(s), "(_ BitVec ") }
func (s Sort) Bits() int {
	var n int
	fmt.Sscanf(string(s), "(_ BitVec %d)", &n)
	return n
}
func (s Sort) IsArr() bool { return strings.HasPrefix(string(s), "(Array ") }

// ArrParts splits "(Array I E)" into I and E.
func (s Sort) ArrParts() (Sort, Sort) {
	str := string(s)
	str = str[len("(Array ") : len(str)-1]
	// first sort token
	depth := 0
	for i := 0; i < len(str); i++ {
		switch str[i] {
		case '(':
			depth++
		case ')':
			depth--
		case ' ':
			if depth == 0 {
				return Sort(str[:i]), Sort(str[i+1:])
			}
		}
	}
	panic("bad array sort " + string(s))
}

type Term struct {
	id    int
	op    string // SMT operator / "const" (free constant) / "lit" / "bvar" / "forall" / "exists" / "app" (uninterpreted or defined fun)
	name  string // for const, lit (printed text), bvar, app (function name)
	args  []*Term
	sort  Sort
	bound []*Term // for quantifiers
	pats  [][]*Term
	hasBV bool // contains a free occurrence of a bound variable
	val   *big.Int // for numeric literals
}

type TermPool struct {
	tab    map[string]*Term
	n      int
	decls  map[string]string // function name -> full declaration command
	fresh  int
	consts []*Term
}

func NewPool() *TermPool {
	return &TermPool{tab: map[string]*Term{}, decls: map[string]string{}}
}

var P = NewPool()

func (p *TermPool) mk(op, name string, sort Sort, args ...*Term) *Term {
	var sb strings.Builder
	sb.WriteString(op)
	sb.WriteByte('|')
	sb.WriteString(name)
	sb.WriteByte('|')
	sb.WriteString(string(sort))
	for _, a := range args {
		fmt.Fprintf(&sb, "|%d", a.id)
	}
	k := sb.String()
	if t, ok := p.tab[k]; ok {
		return t
	}
	p.n++
	t := &Term{id: p.n, op: op, name: name, args: args, sort: sort}
	for _, a := range args {
		if a.hasBV {
			t.hasBV = true
		}
	}
	if op == "bvar" {
		t.hasBV = true
	}
	p.tab[k] = t
	return t
}

func Const(name string, s Sort) *Term {
	t := P.mk("const", name, s)
	if name == "alloc0" || strings.HasPrefix(name, "alloc.") {
		hubCache[t.id] = true
	}
	return t
}

func Fresh(prefix string, s Sort) *Term {
	P.fresh++
	return Const(fmt.Sprintf("%s!%d", sanitize(prefix), P.fresh), s)
}

func sanitize(s string) string {
	var sb strings.Builder
	for _, r := range s {
		switch {
		case r >= 'a' && r <= 'z', r >= 'A' && r <= 'Z', r >= '0' && r <= '9', r == '_', r == '.', r == '$', r == '!':
			sb.WriteRune(r)
		default:
			sb.WriteByte('_')
		}
	}
	return sb.String()
}

func BVar(name string, s Sort) *Term { return P.mk("bvar", name, s) }

var True = P.mk("lit", "true", SBool)
var False = P.mk("lit", "false", SBool)

func BoolLit(b bool) *Term {
	if b {
		return True
	}
	return False
}

func IntLit(v *big.Int) *Term {
	var name string
	if v.Sign() < 0 {
		name = "(- " + new(big.Int).Neg(v).String() + ")"
	} else {
		name = v.String()
	}
	t := P.mk("lit", name, SInt)
	t.val = new(big.Int).Set(v)
	return t
}
func IntLit64(v int64) *Term { return IntLit(big.NewInt(v)) }

func BVLit(v *big.Int, bits int) *Term {
	m := new(big.Int).Lsh(big.NewInt(1), uint(bits))
	x := new(big.Int).Mod(v, m)
	t := P.mk("lit", fmt.Sprintf("(_ bv%s %d)", x.String(), bits), SBV(bits))
	t.val = x
	return t
}
func BVLit64(v uint64, bits int) *Term { return BVLit(new(big.Int).SetUint64(v), bits) }

func (t *Term) IsLit() bool  { return t.op == "lit" }
func (t *Term) IsTrue() bool { return t == True }
func (t *Term) IsFalse() bool {
	return t == False
}

func App(fn string, s Sort, args ...*Term) *Term { return P.mk("app", fn, s, args...) }

func Op(op string, s Sort, args ...*Term) *Term { return P.mk(op, "", s, args...) }

func Not(a *Term) *Term {
	if a == True {
		return False
	}
	if a == False {
		return True
	}
	if a.op == "not" {
		return a.args[0]
	}
	return Op("not", SBool, a)
}

func And(as ...*Term) *Term {
	var out []*Term
	seen := map[int]bool{}
	for _, a := range as {
		if a == True {
			continue
		}
		if a == False {
			return False
		}
		if a.op == "and" {
			for _, b := range a.args {
				if !seen[b.id] {
					seen[b.id] = true
					out = append(out, b)
				}
			}
			continue
		}
		if !seen[a.id] {
			seen[a.id] = true
			out = append(out, a)
		}
	}
	for _, a := range out {
		if a.op == "not" && seen[a.args[0].id] {
			return False
		}
	}
	if len(out) == 0 {
		return True
	}
	if len(out) == 1 {
		return out[0]
	}
	return Op("and", SBool, out...)
}

func Or(as ...*Term) *Term {
	var out []*Term
	seen := map[int]bool{}
	for _, a := range as {
		if a == False {
			continue
		}
		if a == True {
			return True
		}
		if a.op == "or" {
			for _, b := range a.args {
				if !seen[b.id] {
					seen[b.id] = true
					out = append(out, b)
				}
			}
			continue
		}
		if !seen[a.id] {
			seen[a.id] = true
			out = append(out, a)
		}
	}
	for _, a := range out {
		if a.op == "not" && seen[a.args[0].id] {
			return True
		}
	}
	if len(out) == 0 {
		return False
	}
	if len(out) == 1 {
		return out[0]
	}
	return Op("or", SBool, out...)
}

func Implies(a, b *Term) *Term {
	if a == True {
		return b
	}
	if a == False || b == True {
		return True
	}
	if b == False {
		return Not(a)
	}
	return Op("=>", SBool, a, b)
}

func Eq(a, b *Term) *Term {
	if a == b {
		return True
	}
	if a.sort != b.sort {
		panic(fmt.Sprintf("Eq sort mismatch: %s vs %s (%s / %s)", a.sort, b.sort, a.Short(), b.Short()))
	}
	if a.IsLit() && b.IsLit() {
		return False // distinct literals of same sort (hash-consed)
	}
	if a.sort == SBool {
		if a == True {
			return b
		}
		if b == True {
			return a
		}
		if a == False {
			return Not(b)
		}
		if b == False {
			return Not(a)
		}
	}
	if a.id > b.id {
		a, b = b, a
	}
	return Op("=", SBool, a, b)
}

func Ite(c, a, b *Term) *Term {
	if c == True {
		return a
	}
	if c == False {
		return b
	}
	if a == b {
		return a
	}
	if a.sort != b.sort {
		panic(fmt.Sprintf("Ite sort mismatch: %s vs %s", a.sort, b.sort))
	}
	if a.sort == SBool {
		if a == True && b == False {
			return c
		}
		if a == False && b == True {
			return Not(c)
		}
		if a == True {
			return Or(c, b)
		}
		if b == False {
			return And(c, a)
		}
		if a == False {
			return And(Not(c), b)
		}
		if b == True {
			return Or(Not(c), a)
		}
	}
	return Op("ite", a.sort, c, a, b)
}

func Select(arr, idx *Term) *Term {
	_, e := arr.sort.ArrParts()
	// read-over-write simplification
	cur := arr
	for cur.op == "store" {
		if cur.args[1] == idx {
			return cur.args[2]
		}
		if (cur.args[1].IsLit() && idx.IsLit()) || distinctRefs(cur.args[1], idx) {
			cur = cur.args[0]
			continue
		}
		break
	}
	if cur.op == "constarr" {
		return cur.args[0]
	}
	if cur.op == "ite" && selectDepth < 12 && (oldRef(idx) || idx.IsLit()) {
		// reading an entry-time object through a merged heap: push the read into the branches
		selectDepth++
		a := Select(cur.args[1], idx)
		b := Select(cur.args[2], idx)
		selectDepth--
		return Ite(cur.args[0], a, b)
	}
	return Op("select", e, cur, idx)
}

var selectDepth = 0

// freshRef: a reference created by an allocation of the verified code: (+ A k) with k >= 1 and A
// an allocation counter (alloc0, a later counter alloc.*, or again such a sum).
func freshRef(t *Term) bool {
	if t.sort != SInt || t.op != "+" || len(t.args) != 2 {
		return false
	}
	k := t.args[1]
	if !(k.IsLit() && k.val != nil && k.val.Sign() > 0) {
		return false
	}
	a := t.args[0]
	return allocTerm(a) || freshRef(a)
}

func allocTerm(a *Term) bool {
	return a.op == "const" && (a.name == "alloc0" || strings.HasPrefix(a.name, "alloc."))
}

// oldRef: a reference that existed at function entry (parameter or package constant).
func oldRef(t *Term) bool {
	return t.sort == SInt && t.op == "const" && (strings.HasPrefix(t.name, "p!") || strings.HasPrefix(t.name, "gref!") || strings.HasPrefix(t.name, "gconst!"))
}

// distinctRefs: syntactically evident that two references differ (every allocation counter is
// >= alloc0 and every entry-time reference is <= alloc0).
func distinctRefs(a, b *Term) bool {
	return (freshRef(a) && oldRef(b)) || (freshRef(b) && oldRef(a))
}

func Store(arr, idx, v *Term) *Term {
	i, e := arr.sort.ArrParts()
	if idx.sort != i || v.sort != e {
		panic(fmt.Sprintf("Store sort mismatch: arr %s idx %s val %s", arr.sort, idx.sort, v.sort))
	}
	if arr.op == "store" && arr.args[1] == idx {
		arr = arr.args[0]
	}
	return Op("store", arr.sort, arr, idx, v)
}

func ConstArr(s Sort, v *Term) *Term { return Op("constarr", s, v) }

func Forall(bound []*Term, body *Term, pats ...[]*Term) *Term {
	return quant("forall", bound, body, pats)
}
func Exists(bound []*Term, body *Term, pats ...[]*Term) *Term {
	return quant("exists", bound, body, pats)
}

func quant(q string, bound []*Term, body *Term, pats [][]*Term) *Term {
	if body == True || body == False {
		return body
	}
	var sb strings.Builder
	for _, b := range bound {
		fmt.Fprintf(&sb, "%s:%s,", b.name, b.sort)
	}
	for _, p := range pats {
		sb.WriteString("/")
		for _, x := range p {
			fmt.Fprintf(&sb, "%d,", x.id)
		}
	}
	t := P.mk(q, sb.String(), SBool, body)
	t.bound = bound
	t.pats = pats
	// hasBV: true iff body has free bvars other than the bound ones
	t.hasBV = false
	fv := map[*Term]bool{}
	freeBVars(body, map[int]bool{}, fv)
	for _, b := range bound {
		delete(fv, b)
	}
	if len(fv) > 0 {
		t.hasBV = true
	}
	return t
}

func freeBVars(t *Term, seen map[int]bool, out map[*Term]bool) {
	if !t.hasBV || seen[t.id] {
		return
	}
	seen[t.id] = true
	if t.op == "bvar" {
		out[t] = true
		return
	}
	if t.op == "forall" || t.op == "exists" {
		inner := map[*Term]bool{}
		freeBVars(t.args[0], map[int]bool{}, inner)
		for _, b := range t.bound {
			delete(inner, b)
		}
		for k := range inner {
			out[k] = true
		}
		return
	}
	for _, a := range t.args {
		freeBVars(a, seen, out)
	}
}

// Subst replaces terms (typically bvars/consts) according to m.
func Subst(t *Term, m map[*Term]*Term) *Term {
	cache := map[int]*Term{}
	var rec func(t *Term) *Term
	rec = func(t *Term) *Term {
		if r, ok := m[t]; ok {
			return r
		}
		if len(t.args) == 0 {
			return t
		}
		if r, ok := cache[t.id]; ok {
			return r
		}
		na := make([]*Term, len(t.args))
		ch := false
		for i, a := range t.args {
			na[i] = rec(a)
			if na[i] != a {
				ch = true
			}
		}
		var r *Term
		if !ch {
			r = t
		} else if t.op == "forall" || t.op == "exists" {
			var np [][]*Term
			for _, p := range t.pats {
				var q []*Term
				for _, x := range p {
					q = append(q, rec(x))
				}
				np = append(np, q)
			}
			r = quant(t.op, t.bound, na[0], np)
		} else {
			r = rebuild(t, na)
		}
		cache[t.id] = r
		return r
	}
	return rec(t)
}

func rebuild(t *Term, na []*Term) *Term {
	switch t.op {
	case "and":
		return And(na...)
	case "or":
		return Or(na...)
	case "not":
		return Not(na[0])
	case "=>":
		return Implies(na[0], na[1])
	case "=":
		return Eq(na[0], na[1])
	case "ite":
		return Ite(na[0], na[1], na[2])
	case "select":
		return Select(na[0], na[1])
	case "store":
		return Store(na[0], na[1], na[2])
	}
	return P.mk(t.op, t.name, t.sort, na...)
}

func (t *Term) Short() string {
	s := t.String()
	if len(s) > 200 {
		s = s[:200] + "..."
	}
	return s
}

// String prints the term fully inlined (for debugging / small terms).
func (t *Term) String() string {
	var sb strings.Builder
	printTerm(&sb, t, nil)
	return sb.String()
}

func printTerm(sb *strings.Builder, t *Term, named map[int]bool) {
	if named != nil && named[t.id] {
		fmt.Fprintf(sb, "t%d", t.id)
		return
	}
	switch t.op {
	case "const":
		sb.WriteString(quoteSym(t.name))
	case "bvar":
		sb.WriteString(quoteSym(t.name))
	case "lit", "raw":
		sb.WriteString(t.name)
	case "constarr":
		fmt.Fprintf(sb, "((as const %s) ", t.sort)
		printTerm(sb, t.args[0], named)
		sb.WriteString(")")
	case "forall", "exists":
		sb.WriteString("(" + t.op + " (")
		for _, b := range t.bound {
			fmt.Fprintf(sb, "(%s %s)", quoteSym(b.name), b.sort)
		}
		sb.WriteString(") ")
		if len(t.pats) > 0 {
			sb.WriteString("(! ")
		}
		printTerm(sb, t.args[0], named)
		if len(t.pats) > 0 {
			for _, p := range t.pats {
				sb.WriteString(" :pattern (")
				for i, x := range p {
					if i > 0 {
						sb.WriteString(" ")
					}
					printTerm(sb, x, named)
				}
				sb.WriteString(")")
			}
			sb.WriteString(")")
		}
		sb.WriteString(")")
	case "app":
		if len(t.args) == 0 {
			sb.WriteString(t.name)
			return
		}
		sb.WriteString("(" + t.name)
		for _, a := range t.args {
			sb.WriteString(" ")
			printTerm(sb, a, named)
		}
		sb.WriteString(")")
	default:
		sb.WriteString("(" + t.op)
		for _, a := range t.args {
			sb.WriteString(" ")
			printTerm(sb, a, named)
		}
		sb.WriteString(")")
	}
}

func quoteSym(s string) string {
	for _, r := range s {
		if !(r >= 'a' && r <= 'z' || r >= 'A' && r <= 'Z' || r >= '0' && r <= '9' || r == '_' || r == '.' || r == '$' || r == '!') {
			return "|" + s + "|"
		}
	}
	return s
}

// Script renders a set of assertion terms as an SMT-LIB script body: declarations of all
// free constants and used functions, define-funs for shared closed subterms, assertions.
func Script(prelude *Prelude, asserts []*Term, getValues []*Term) string {
	// collect cone
	seen := map[int]*Term{}
	refc := map[int]int{}
	var order []*Term
	var visit func(t *Term)
	visit = func(t *Term) {
		refc[t.id]++
		if _, ok := seen[t.id]; ok {
			return
		}
		seen[t.id] = t
		for _, a := range t.args {
			visit(a)
		}
		for _, p := range t.pats {
			for _, x := range p {
				visit(x)
			}
		}
		order = append(order, t)
	}
	for _, a := range asserts {
		visit(a)
	}
	for _, a := range getValues {
		visit(a)
	}
	var sb strings.Builder
	// used function names
	usedFns := map[string]bool{}
	usedSorts := map[Sort]bool{}
	var consts []*Term
	for _, t := range order {
		usedSorts[t.sort] = true
		switch t.op {
		case "app":
			usedFns[t.name] = true
		case "raw":
			for _, tok := range sexpTokens(t.name) {
				usedFns[tok] = true
			}
		case "const":
			consts = append(consts, t)
		}
	}
	sb.WriteString(prelude.Render(usedFns, usedSorts))
	sort.Slice(consts, func(i, j int) bool { return consts[i].id < consts[j].id })
	for _, c := range consts {
		fmt.Fprintf(&sb, "(declare-const %s %s)\n", quoteSym(c.name), c.sort)
	}
	named := map[int]bool{}
	for _, t := range order {
		if t.hasBV || len(t.args) == 0 {
			continue
		}
		if refc[t.id] > 1 || termDepth(t) > 6 {
			var b strings.Builder
			printTermShallow(&b, t, named)
			fmt.Fprintf(&sb, "(define-fun t%d () %s %s)\n", t.id, t.sort, b.String())
			named[t.id] = true
		}
	}
	for _, a := range asserts {
		var b strings.Builder
		printTerm(&b, a, named)
		fmt.Fprintf(&sb, "(assert %s)\n", b.String())
	}
	return sb.String()
}

var depthCache = map[int]int{}

func termDepth(t *Term) int {
	if d, ok := depthCache[t.id]; ok {
		return d
	}
	d := 0
	for _, a := range t.args {
		if x := termDepth(a) + 1; x > d {
			d = x
		}
	}
	depthCache[t.id] = d
	return d
}

// printTermShallow prints t's top-level operator with children referenced by name when named.
func printTermShallow(sb *strings.Builder, t *Term, named map[int]bool) {
	was := named[t.id]
	delete(named, t.id)
	printTerm(sb, t, named)
	if was {
		named[t.id] = true
	}
}
