package main

// Frame (write-set) inference: which heap classes a function may write, transitively.

import (
	"go/token"
	"go/types"
	"strings"

	"golang.org/x/tools/go/ssa"
)

type FrameInfo struct {
	eng    *Engine
	direct map[*ssa.Function]map[string]bool
	trans  map[*ssa.Function]map[string]bool
	callees map[*ssa.Function][]*ssa.Function
	followGo bool
}

const classTop = "*"

// pure external packages: calls into them do not write memory visible to contracts
// (logging/formatting are trusted effect-free, see DESIGN 2.2(e)).
var purePkgs = map[string]bool{
	"fmt": true, "errors": true, "strings": true, "strconv": true, "time": true, "unicode": true, "unicode/utf8": true,
	"math": true, "math/bits": true, "os": true, "log": true, "runtime": true, "runtime/debug": true, "reflect": true,
	"sync/atomic": false, "path/filepath": true, "regexp": true, "sort": false, "bytes": false,
	"gitlab.com/aquachain/aquachain/common/log": true, "gitlab.com/aquachain/aquachain/common/metrics": true,
	"gitlab.com/aquachain/aquachain/common/mclock": true,
}

func (eng *Engine) inModule(f *ssa.Function) bool {
	if f == nil || f.Pkg == nil {
		if f != nil && f.Parent() != nil {
			return eng.inModule(f.Parent())
		}
		if f != nil && f.Origin() != nil {
			return eng.inModule(f.Origin())
		}
		// synthetic wrappers (pointer-receiver wrapper of a value method, bound-method thunks)
		// carry no package; they belong to the package of the method they wrap
		if f != nil {
			if o := f.Object(); o != nil && o.Pkg() != nil {
				return strings.HasPrefix(o.Pkg().Path(), eng.modPath)
			}
		}
		return false
	}
	return strings.HasPrefix(f.Pkg.Pkg.Path(), eng.modPath)
}

func funcPkgPath(f *ssa.Function) string {
	for f != nil {
		if f.Pkg != nil {
			return f.Pkg.Pkg.Path()
		}
		if f.Parent() != nil {
			f = f.Parent()
			continue
		}
		if f.Origin() != nil {
			f = f.Origin()
			continue
		}
		if o := f.Object(); o != nil && o.Pkg() != nil {
			return o.Pkg().Path()
		}
		break
	}
	return ""
}

// rootOf walks FieldAddr/IndexAddr chains back to the root pointer value.
func rootOf(v ssa.Value) (root ssa.Value, fields []ssa.Instruction) {
	for {
		switch x := v.(type) {
		case *ssa.FieldAddr:
			fields = append(fields, x)
			v = x.X
		case *ssa.IndexAddr:
			if _, ok := x.X.Type().Underlying().(*types.Pointer); ok {
				fields = append(fields, x)
				v = x.X
			} else {
				return v, fields
			}
		default:
			return v, fields
		}
	}
}

// freshOnly marks a class that a function writes only inside objects it allocated itself
// (stores rooted at its own heap Alloc): a caller's existing objects of that class are unchanged,
// so the call site forgets the class only above the allocation counter of the call (havocClasses).
const freshOnly = "~"

func freshable(k string) bool {
	return k == "big" || strings.HasPrefix(k, "F:") || strings.HasPrefix(k, "E:") || strings.HasPrefix(k, "C:") || strings.HasPrefix(k, "MH:") || strings.HasPrefix(k, "MV:")
}

// writeClass computes the heap class written by a store through address value addr.
// fr may be nil (static inference); then local allocs yield no class.
func (fi *FrameInfo) writeClass(fr *Frame, addr ssa.Value, ws map[string]bool) {
	if fr == nil {
		if root, _ := rootOf(addr); root != nil {
			if c, ok := root.(*ssa.Call); ok && returnsFresh(c.Call.StaticCallee()) {
				// a store into the object a constructor-like callee just allocated and returned
				// (n.copy()): as good as the function's own allocation
				tmp := map[string]bool{}
				fi.writeClass0(nil, addr, tmp)
				for k := range tmp {
					if freshable(k) {
						ws[freshOnly+k] = true
					} else {
						ws[k] = true
					}
				}
				return
			}
			if a, ok := root.(*ssa.Alloc); ok && a.Heap && !isLocalAlloc(a) {
				tmp := map[string]bool{}
				fi.writeClass0(nil, addr, tmp)
				for k := range tmp {
					if freshable(k) {
						ws[freshOnly+k] = true
					} else {
						ws[k] = true
					}
				}
				return
			}
		}
	}
	fi.writeClass0(fr, addr, ws)
}

func (fi *FrameInfo) writeClass0(fr *Frame, addr ssa.Value, ws map[string]bool) {
	switch x := addr.(type) {
	case *ssa.Alloc:
		if fr != nil {
			if a, ok := fr.addrs[x]; ok {
				ws[a.class] = true
				return
			}
		}
		if isLocalAlloc(x) {
			return // private to the activation
		}
		fi.pointeeClasses(x.Type().(*types.Pointer).Elem(), ws)
	case *ssa.Global:
		regSort("G:"+x.Pkg.Pkg.Path()+"."+x.Name(), func() Sort { return SortOf(x.Type().(*types.Pointer).Elem()) })
		ws["G:"+x.Pkg.Pkg.Path()+"."+x.Name()] = true
	case *ssa.FieldAddr:
		root, _ := rootOf(x)
		switch r := root.(type) {
		case *ssa.Alloc:
			if fr != nil {
				if a, ok := fr.addrs[r]; ok {
					ws[a.class] = true
					return
				}
			}
			if isLocalAlloc(r) {
				return
			}
		case *ssa.Global:
			regSort("G:"+r.Pkg.Pkg.Path()+"."+r.Name(), func() Sort { return SortOf(r.Type().(*types.Pointer).Elem()) })
			ws["G:"+r.Pkg.Pkg.Path()+"."+r.Name()] = true
			return
		}
		// the class is that of the outermost field selected on a heap struct
		// chain: x = FieldAddr(FieldAddr(p, i), j) writes F:T.i
		cur := ssa.Value(x)
		for {
			fa, ok := cur.(*ssa.FieldAddr)
			if !ok {
				ia, ok2 := cur.(*ssa.IndexAddr)
				if ok2 {
					cur = ia.X
					continue
				}
				break
			}
			if _, inner := fa.X.(*ssa.FieldAddr); inner {
				cur = fa.X
				continue
			}
			if ia, inner := fa.X.(*ssa.IndexAddr); inner {
				if _, isPtr := ia.X.Type().Underlying().(*types.Pointer); isPtr {
					cur = fa.X
					continue
				}
				// element of a slice of structs: element class
				ws[elemClass(ia.X.Type().Underlying().(*types.Slice).Elem())] = true
				return
			}
			pt := fa.X.Type().Underlying().(*types.Pointer).Elem()
			ws[fieldClass(pt, fa.Field)] = true
			return
		}
	case *ssa.IndexAddr:
		switch u := x.X.Type().Underlying().(type) {
		case *types.Slice:
			ws[elemClass(u.Elem())] = true
		case *types.Pointer:
			root, _ := rootOf(x)
			if r, ok := root.(*ssa.Alloc); ok {
				if fr != nil {
					if a, ok := fr.addrs[r]; ok {
						ws[a.class] = true
						return
					}
				}
				if isLocalAlloc(r) {
					return
				}
			}
			if _, ok := x.X.(*ssa.FieldAddr); ok {
				fi.writeClass0(fr, x.X, ws)
				return
			}
			ws[elemClass(u.Elem().Underlying().(*types.Array).Elem())] = true
		}
	default:
		// arbitrary pointer value
		if pt, ok := addr.Type().Underlying().(*types.Pointer); ok {
			fi.pointeeClasses(pt.Elem(), ws)
		}
	}
}

func (fi *FrameInfo) pointeeClasses(t types.Type, ws map[string]bool) {
	if isBigInt(t) {
		ws["big"] = true
		return
	}
	switch u := t.Underlying().(type) {
	case *types.Struct:
		for i := 0; i < u.NumFields(); i++ {
			ws[fieldClass(t, i)] = true
		}
	case *types.Array:
		ws[elemClass(u.Elem())] = true
	default:
		regSort("C:"+typeKey(t), func() Sort { return SArr(SRef, SortOf(t)) })
		ws["C:"+typeKey(t)] = true
	}
}

// reachClasses: everything an external callee could write given a value of type t.
func (fi *FrameInfo) reachClasses(t types.Type, ws map[string]bool, seen map[string]bool, depth int) {
	k := typeKey(t)
	if seen[k] || depth > 4 {
		return
	}
	seen[k] = true
	switch u := t.Underlying().(type) {
	case *types.Pointer:
		fi.pointeeClasses(u.Elem(), ws)
		fi.reachClasses(u.Elem(), ws, seen, depth+1)
	case *types.Slice:
		ws[elemClass(u.Elem())] = true
		fi.reachClasses(u.Elem(), ws, seen, depth+1)
	case *types.Struct:
		if isBigInt(t) {
			return
		}
		for i := 0; i < u.NumFields(); i++ {
			fi.reachClasses(u.Field(i).Type(), ws, seen, depth+1)
		}
	case *types.Map:
		hk, _, vk, _ := mapClasses(u)
		ws[hk] = true
		ws[vk] = true
	case *types.Interface, *types.Signature:
		// unknown dynamic content: cannot enumerate
	}
}

func (fi *FrameInfo) instrWrites(fr *Frame, in ssa.Instruction, ws map[string]bool) {
	var callees []*ssa.Function
	fi.instrEffects(fr, in, ws, &callees)
	for _, f := range callees {
		fi.addAll(ws, fi.of(f, nil))
	}
}

// instrEffects adds the classes written directly by in to ws and the functions it may call to callees.
func (fi *FrameInfo) instrEffects(fr *Frame, in ssa.Instruction, ws map[string]bool, callees *[]*ssa.Function) {
	switch x := in.(type) {
	case *ssa.Store:
		fi.writeClass(fr, x.Addr, ws)
	case *ssa.MapUpdate:
		hk, _, vk, _ := mapClasses(x.Map.Type().Underlying().(*types.Map))
		if _, own := x.Map.(*ssa.MakeMap); own && fr == nil {
			// an update of a map this function created itself: maps that existed before the
			// call keep their contents
			ws[freshOnly+hk] = true
			ws[freshOnly+vk] = true
			break
		}
		ws[hk] = true
		ws[vk] = true
	case *ssa.Next:
		if fr != nil && fr.ranges != nil {
			if rs := fr.ranges[x.Iter]; rs != nil {
				ws[rs.seen] = true
			}
		}
	case *ssa.Call:
		fi.callEffects(fr, x.Common(), ws, callees)
	case *ssa.Defer:
		fi.callEffects(fr, x.Common(), ws, callees)
	case *ssa.Send:
		ws["ghost:$sent"] = true
	case *ssa.Select:
		ws["ghost:$sent"] = true
		ws["ghost:$recv"] = true
	case *ssa.UnOp:
		if x.Op == token.ARROW {
			ws["ghost:$recv"] = true
		}
	case *ssa.Go:
		// effect analysis (protects clauses) also follows goroutines started by the function:
		// what they do happens because of the call
		if fi.followGo {
			fi.callEffects(fr, x.Common(), ws, callees)
		}
	}
}

func (fi *FrameInfo) callEffects(fr *Frame, c *ssa.CallCommon, ws map[string]bool, callees *[]*ssa.Function) {
	if c.IsInvoke() {
		if tc := fi.eng.typeContract(c.Value.Type(), c.Method.Name()); tc != nil && tc.hasAssgn {
			exprItem := false
			for _, item := range tc.assigns {
				if strings.HasPrefix(item, "class ") {
					ws[strings.TrimSpace(item[6:])] = true
				} else if fi.eng.contracts.ghosts[item] != nil {
					ws["ghost:"+item] = true
				} else {
					exprItem = true // a location expression: fall back to the implementations
				}
			}
			if !tc.inferRest && !exprItem {
				return
			}
		}
		impls := fi.eng.implementations(c.Value.Type(), c.Method)
		if len(impls) == 0 {
			fi.externalWrites(c, ws)
			return
		}
		*callees = append(*callees, impls...)
		return
	}
	switch v := c.Value.(type) {
	case *ssa.Builtin:
		switch v.Name() {
		case "append", "copy":
			if len(c.Args) > 0 {
				if st, ok := c.Args[0].Type().Underlying().(*types.Slice); ok {
					ws[elemClass(st.Elem())] = true
				}
			}
		case "delete":
			hk, _, vk, _ := mapClasses(c.Args[0].Type().Underlying().(*types.Map))
			ws[hk] = true
			ws[vk] = true
		}
		return
	case *ssa.Function:
		if funcFullName(v) == "sync/atomic.Value.Store" {
			cls := "A:*"
			if len(c.Args) > 0 {
				if fa, ok := c.Args[0].(*ssa.FieldAddr); ok {
					if _, inner := fa.X.(*ssa.FieldAddr); !inner {
						if pt, ok := fa.X.Type().Underlying().(*types.Pointer); ok {
							cls = "A:" + fieldClass(pt.Elem(), fa.Field)
						}
					}
				}
			}
			ws[cls] = true
			return
		}
		if funcFullName(v) == "sync/atomic.Value.Load" {
			return
		}
		if strings.HasPrefix(funcFullName(v), "sync.Mutex.") || strings.HasPrefix(funcFullName(v), "sync.RWMutex.") {
			// ghost lock-depth counter: a loop of the function under verification that locks
			// or unlocks must carry an invariant about it; callees are assumed lock-balanced
			// (proved for those that have a lockbalance contract), so their frames omit it
			if fr != nil {
				ws["lock"] = true
			}
			return
		}
		if fr == nil && isBigMethod(v) && len(c.Args) > 0 && freshBigRecv(c.Args[0], 0) {
			// a big.Int method writes its receiver only: when that is an integer this function
			// allocated itself (new(big.Int).Add(...), also chained), integers the caller
			// already held keep their values
			ws[freshOnly+"big"] = true
			return
		}
		*callees = append(*callees, v)
		return
	case *ssa.MakeClosure:
		*callees = append(*callees, v.Fn.(*ssa.Function))
		for _, b := range v.Bindings {
			if al, ok := b.(*ssa.Alloc); ok && fr != nil {
				if a, ok := fr.addrs[al]; ok {
					ws[a.class] = true
				}
			}
		}
		return
	}
	fs := fi.eng.funcsBySig(c.Signature())
	if len(fs) == 0 {
		fi.externalWrites(c, ws)
		return
	}
	*callees = append(*callees, fs...)
}

func (fi *FrameInfo) addAll(ws map[string]bool, from map[string]bool) {
	for k := range from {
		ws[k] = true
	}
}

func (fi *FrameInfo) externalWrites(c *ssa.CallCommon, ws map[string]bool) {
	seen := map[string]bool{}
	for _, a := range c.Args {
		fi.reachClasses(a.Type(), ws, seen, 0)
	}
}

// computeDirect fills direct[f] and callees[f].
func (fi *FrameInfo) computeDirect(f *ssa.Function) {
	if _, ok := fi.direct[f]; ok {
		return
	}
	ws := map[string]bool{}
	fi.direct[f] = ws
	pkg := funcPkgPath(f)
	if purePkgs[pkg] {
		return
	}
	if ct := fi.eng.contractOf(f); ct != nil && ct.hasAssgn {
		fi.eng.assignClasses(f, ct, ws)
		if !ct.inferRest {
			return
		}
	}
	if len(f.Blocks) == 0 || !fi.eng.inModule(f) {
		if isBigMethod(f) {
			ws["big"] = true
			return
		}
		if f.Signature != nil {
			seen := map[string]bool{}
			ps := f.Signature.Params()
			for i := 0; i < ps.Len(); i++ {
				fi.reachClasses(ps.At(i).Type(), ws, seen, 0)
			}
			if r := f.Signature.Recv(); r != nil {
				fi.reachClasses(r.Type(), ws, seen, 0)
			}
		}
		return
	}
	var cs []*ssa.Function
	for _, b := range f.Blocks {
		for _, in := range b.Instrs {
			fi.instrEffects(nil, in, ws, &cs)
		}
	}
	fi.callees[f] = cs
}

// of returns the transitive write set of f (least fixed point over the call graph).
func (fi *FrameInfo) of(f *ssa.Function, c *ssa.CallCommon) map[string]bool {
	if ws, ok := fi.trans[f]; ok {
		return ws
	}
	var order []*ssa.Function
	seen := map[*ssa.Function]bool{}
	var visit func(g *ssa.Function)
	visit = func(g *ssa.Function) {
		if seen[g] || fi.trans[g] != nil {
			return
		}
		seen[g] = true
		order = append(order, g)
		fi.computeDirect(g)
		for _, h := range fi.callees[g] {
			visit(h)
		}
	}
	visit(f)
	cur := map[*ssa.Function]map[string]bool{}
	for _, g := range order {
		m := map[string]bool{}
		for k := range fi.direct[g] {
			m[k] = true
		}
		cur[g] = m
	}
	for changed := true; changed; {
		changed = false
		for i := len(order) - 1; i >= 0; i-- {
			g := order[i]
			for _, h := range fi.callees[g] {
				src := fi.trans[h]
				if src == nil {
					src = cur[h]
				}
				for k := range src {
					if !cur[g][k] {
						cur[g][k] = true
						changed = true
					}
				}
			}
		}
	}
	for _, g := range order {
		fi.trans[g] = cur[g]
	}
	return fi.trans[f]
}

// bodyOf is the inferred write set of f (its contract's explicit assigns included).
func (fi *FrameInfo) bodyOf(f *ssa.Function) map[string]bool {
	return fi.of(f, nil)
}

// returnsFresh: every return of f hands back (as its only result) an object f allocated itself.
func returnsFresh(f *ssa.Function) bool {
	if f == nil || len(f.Blocks) == 0 || f.Signature.Results().Len() != 1 {
		return false
	}
	n := 0
	for _, b := range f.Blocks {
		for _, in := range b.Instrs {
			if r, ok := in.(*ssa.Return); ok {
				a, ok := r.Results[0].(*ssa.Alloc)
				if !ok || !a.Heap {
					return false
				}
				n++
			}
		}
	}
	return n > 0
}

// freshBigRecv: v is new(big.Int), or the result of a big.Int method whose receiver is.
func freshBigRecv(v ssa.Value, depth int) bool {
	if depth > 8 {
		return false
	}
	switch x := v.(type) {
	case *ssa.Alloc:
		return x.Heap && isBigInt(x.Type().(*types.Pointer).Elem())
	case *ssa.Call:
		if f := x.Call.StaticCallee(); f != nil && isBigMethod(f) && len(x.Call.Args) > 0 {
			if r := f.Signature.Results(); r.Len() == 1 && types.Identical(r.At(0).Type(), x.Call.Args[0].Type()) {
				return freshBigRecv(x.Call.Args[0], depth+1)
			}
		}
	}
	return false
}

func isBigMethod(f *ssa.Function) bool {
	return strings.HasPrefix(funcFullName(f), "math/big.Int.")
}
