package main

// Contract files: /repo/<pkg>/verif_contracts.go, comment-only, `//go:build verif`.
// Every clause lives on a `//@` line; a `//@ func <Recv.>Name` line opens a block.

import (
	"crypto/sha256"
	"encoding/hex"
	"fmt"
	"os"
	"regexp"
	"strconv"
	"strings"
)

type Clause struct {
	kind  string // requires ensures invariant decreases panics assume
	ids   []string
	label string
	text  string
	expr  Expr
	loop  int
	line  int
}

func (c *Clause) Hash() string {
	h := sha256.Sum256([]byte(c.kind + "|" + strings.Join(strings.Fields(c.text), " ")))
	return hex.EncodeToString(h[:6])
}

type Contract struct {
	pkgPath  string
	key      string // "Name" or "Recv.Name"
	file     string
	line     int
	requires []*Clause
	ensures  []*Clause
	loops    map[int][]*Clause // invariants + decreases per loop ordinal
	assigns  []string          // raw assign items; nil = not given (inferred)
	hasAssgn bool
	inferRest bool // assigns ..., inferred
	inline   bool
	trusted  bool
	nopanic  []string // property ids claiming the safe.* obligations
	allocs   []*Clause // allocation bounds checked at every make([]T, n) site
	panics   *Clause  // allowed panic condition
	lets     []letDef
	ghosts   []string
	isType   bool // type contract (func type / interface method)
	modular  bool // callers use the contract even though small enough to inline
	opaque   bool // never inline, never look inside (callers havoc the inferred frame)
	pure     bool
	noframe  bool
	keeps    []string
	protects []*protectsDecl
	used     bool
}

// isOpaque: callers never look into the function (explicit directive, or a contract that only
// states a trusted partial frame).
func (c *Contract) isOpaque() bool {
	if c.opaque {
		return true
	}
	return len(c.keeps) > 0 && len(c.ensures) == 0 && len(c.requires) == 0 && !c.hasAssgn && !c.trusted && !c.modular && !c.inline
}

type letDef struct {
	name string
	expr Expr
	text string
}

type GhostDecl struct {
	name string
	sort Sort
	pkg  string
}

type MacroDef struct {
	pkg    string
	name   string
	params []string
	text   string
	body   Expr
}

type ContractSet struct {
	macros       map[string]*MacroDef
	pendingMacro *MacroDef
	byKey  map[string]*Contract // pkgPath + "::" + key
	ghosts map[string]*GhostDecl
	files  []string
	list   []*Contract
}

var reClause = regexp.MustCompile(`^(requires|ensures|assume|axiom)(\[[A-Za-z0-9, ]*\])?\s+(?:@([A-Za-z0-9_.]+)\s+)?(.*)$`)
var reLoop = regexp.MustCompile(`^loop\s+(\d+)\s+(invariant|decreases)(\[[A-Za-z0-9, ]*\])?\s+(?:@([A-Za-z0-9_.]+)\s+)?(.*)$`)
var reAlloc = regexp.MustCompile(`^allocbound(\[[A-Za-z0-9, ]*\])\s+(.*)$`)

func parseIDs(s string) []string {
	s = strings.Trim(s, "[]")
	var out []string
	for _, p := range strings.Split(s, ",") {
		p = strings.TrimSpace(p)
		if p != "" {
			out = append(out, p)
		}
	}
	return out
}

func (cs *ContractSet) LoadFile(pkgPath, path string) error {
	b, err := os.ReadFile(path)
	if err != nil {
		return err
	}
	cs.files = append(cs.files, path)
	var cur *Contract
	var last *Clause
	var lastLet *letDef
	finish := func() error {
		if last != nil && last.expr == nil {
			e, err := ParseExpr(last.text)
			if err != nil {
				return fmt.Errorf("%s:%d: %v", path, last.line, err)
			}
			last.expr = e
		}
		last = nil
		if lastLet != nil {
			e, err := ParseExpr(lastLet.text)
			if err != nil {
				return fmt.Errorf("%s: let %s: %v", path, lastLet.name, err)
			}
			lastLet.expr = e
			lastLet = nil
		}
		return nil
	}
	for ln, line := range strings.Split(string(b), "\n") {
		t := strings.TrimSpace(line)
		if !strings.HasPrefix(t, "//@") {
			continue
		}
		t = strings.TrimSpace(strings.TrimPrefix(t, "//@"))
		if k := strings.Index(t, " //"); k >= 0 {
			t = strings.TrimSpace(t[:k])
		}
		if t == "" {
			continue
		}
		switch {
		case strings.HasPrefix(t, "func ") || strings.HasPrefix(t, "type "):
			if err := finish(); err != nil {
				return err
			}
			cs.pendingMacro = nil
			isType := strings.HasPrefix(t, "type ")
			name := strings.TrimSpace(t[5:])
			if k := strings.IndexAny(name, " ("); k > 0 && !strings.HasPrefix(name, "(") {
				name = name[:k]
			}
			if strings.HasPrefix(name, "(") {
				// "(s *Stream) willRead(...)" form
				re := regexp.MustCompile(`^\(\s*\w*\s*\*?(\w+)\s*\)\s*(\w+)`)
				m := re.FindStringSubmatch(name)
				if m == nil {
					return fmt.Errorf("%s:%d: cannot parse function header %q", path, ln+1, t)
				}
				name = m[1] + "." + m[2]
			}
			cur = &Contract{pkgPath: pkgPath, key: name, file: path, line: ln + 1, loops: map[int][]*Clause{}, isType: isType}
			k := pkgPath + "::" + name
			if cs.byKey[k] != nil {
				return fmt.Errorf("%s:%d: duplicate contract for %s", path, ln+1, name)
			}
			cs.byKey[k] = cur
			cs.list = append(cs.list, cur)
		case strings.HasPrefix(t, "package "):
			// library contract files (/verif/lib/*.contracts) name the package they describe
			if err := finish(); err != nil {
				return err
			}
			pkgPath = strings.TrimSpace(t[8:])
			cur = nil
		case strings.HasPrefix(t, "macro "):
			if err := finish(); err != nil {
				return err
			}
			m := regexp.MustCompile(`^macro\s+(\w+)\(([^)]*)\)\s*=\s*(.*)$`).FindStringSubmatch(t)
			if m == nil {
				return fmt.Errorf("%s:%d: bad macro", path, ln+1)
			}
			md := &MacroDef{name: m[1], text: m[3], pkg: pkgPath}
			for _, p := range strings.Split(m[2], ",") {
				if p = strings.TrimSpace(p); p != "" {
					md.params = append(md.params, p)
				}
			}
			if cs.macros == nil {
				cs.macros = map[string]*MacroDef{}
			}
			cs.macros[md.name] = md
			cur = nil
			// continuation lines extend the macro body through a pseudo-let
			cs.pendingMacro = md
		case strings.HasPrefix(t, "ghost "):
			if err := finish(); err != nil {
				return err
			}
			f := strings.Fields(t)
			if len(f) < 3 {
				return fmt.Errorf("%s:%d: ghost needs name and sort", path, ln+1)
			}
			g := &GhostDecl{name: f[1], sort: Sort(strings.Join(f[2:], " ")), pkg: pkgPath}
			cs.ghosts[g.name] = g
		default:
			if cur == nil && cs.pendingMacro != nil {
				cs.pendingMacro.text += " " + t
				continue
			}
			if cur == nil {
				return fmt.Errorf("%s:%d: clause outside a func block: %q", path, ln+1, t)
			}
			if m := reClause.FindStringSubmatch(t); m != nil {
				if err := finish(); err != nil {
					return err
				}
				c := &Clause{kind: m[1], ids: parseIDs(m[2]), label: m[3], text: m[4], line: ln + 1}
				switch c.kind {
				case "requires":
					cur.requires = append(cur.requires, c)
				case "ensures", "axiom":
					// axiom: a postcondition callers may assume but the body is not checked
					// against (value of an uninterpreted library result); reported as trusted
					cur.ensures = append(cur.ensures, c)
				case "assume":
					cur.requires = append(cur.requires, c)
				}
				last = c
			} else if m := reLoop.FindStringSubmatch(t); m != nil {
				if err := finish(); err != nil {
					return err
				}
				n, _ := strconv.Atoi(m[1])
				c := &Clause{kind: m[2], ids: parseIDs(m[3]), label: m[4], text: m[5], loop: n, line: ln + 1}
				cur.loops[n] = append(cur.loops[n], c)
				last = c
			} else if strings.HasPrefix(t, "assigns") {
				if err := finish(); err != nil {
					return err
				}
				cur.hasAssgn = true
				rest := strings.TrimSpace(strings.TrimPrefix(t, "assigns"))
				if rest != "nothing" && rest != "" {
					for _, it := range strings.Split(rest, ",") {
						if strings.TrimSpace(it) == "inferred" {
							// the listed (ghost) locations plus whatever the body / the
							// implementations are inferred to write
							cur.inferRest = true
							continue
						}
						cur.assigns = append(cur.assigns, strings.TrimSpace(it))
					}
				}
			} else if strings.HasPrefix(t, "let ") {
				if err := finish(); err != nil {
					return err
				}
				rest := strings.TrimSpace(t[4:])
				k := strings.Index(rest, "=")
				if k < 0 {
					return fmt.Errorf("%s:%d: bad let", path, ln+1)
				}
				cur.lets = append(cur.lets, letDef{name: strings.TrimSpace(rest[:k]), text: strings.TrimSpace(rest[k+1:])})
				lastLet = &cur.lets[len(cur.lets)-1]
			} else if strings.HasPrefix(t, "panics when ") {
				if err := finish(); err != nil {
					return err
				}
				c := &Clause{kind: "panics", text: strings.TrimSpace(strings.TrimPrefix(t, "panics when ")), line: ln + 1}
				cur.panics = c
				last = c
			} else if m := reAlloc.FindStringSubmatch(t); m != nil {
				if err := finish(); err != nil {
					return err
				}
				c := &Clause{kind: "allocbound", ids: parseIDs(m[1]), text: m[2], line: ln + 1}
				cur.allocs = append(cur.allocs, c)
				last = c
			} else if strings.HasPrefix(t, "protects") {
				if err := finish(); err != nil {
					return err
				}
				pd, err := parseProtects(t, ln+1)
				if err != nil {
					return fmt.Errorf("%s:%d: %v", path, ln+1, err)
				}
				cur.protects = append(cur.protects, pd)
			} else if strings.HasPrefix(t, "nopanic") {
				if err := finish(); err != nil {
					return err
				}
				cur.nopanic = parseIDs(strings.TrimSpace(strings.TrimPrefix(t, "nopanic")))
				if len(cur.nopanic) == 0 {
					cur.nopanic = []string{"-"}
				}
			} else if strings.HasPrefix(t, "keeps ") {
				// trusted partial frame: the callee does not modify the listed heap classes as
				// far as the caller can observe (everything else follows the inferred frame)
				for _, k := range strings.Split(strings.TrimPrefix(t, "keeps "), ",") {
					cur.keeps = append(cur.keeps, strings.TrimSpace(k))
				}
			} else if t == "inline" {
				cur.inline = true
			} else if t == "trusted" {
				cur.trusted = true
			} else if t == "modular" {
				cur.modular = true
			} else if t == "opaque" {
				cur.opaque = true
			} else if t == "pure" {
				cur.pure = true
			} else if t == "noframe" {
				cur.noframe = true
			} else if last != nil {
				last.text += " " + t
			} else if lastLet != nil {
				lastLet.text += " " + t
			} else {
				return fmt.Errorf("%s:%d: unknown clause %q", path, ln+1, t)
			}
		}
	}
	return finish()
}
