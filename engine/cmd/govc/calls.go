package main

import (
	"fmt"
	"go/types"
	"os"
	"sort"
	"strings"

	"golang.org/x/tools/go/ssa"
)

type closureInfo struct {
	fn    *ssa.Function
	binds []*Term
}

type closureKey struct {
	ref *Term
	i   int
}

func (fr *Frame) args(c *ssa.CallCommon) []*Term {
	var as []*Term
	for _, a := range c.Args {
		as = append(as, fr.val(a))
	}
	return as
}

// call dispatches a call; returns result terms (one per signature result).
func (fr *Frame) call(st *State, c *ssa.CallCommon, in ssa.Instruction, callInstr *ssa.Call) []*Term {
	fc := fr.fc
	eng := fc.eng
	if c.IsInvoke() {
		recv := fr.val(c.Value)
		// devirtualise when the dynamic type is known
		if recv.op == "app" && recv.name == "mk_Iface" && recv.args[0].IsLit() {
			id := int(recv.args[0].val.Int64())
			if id >= 1 && id <= len(TR.idTypes) {
				dyn := TR.idTypes[id-1]
				if f := eng.prog.LookupMethod(dyn, c.Method.Pkg(), c.Method.Name()); f != nil {
					rv := fr.unbox(st, recv, dyn)
					return fr.callFunc(st, f, append([]*Term{rv}, fr.args(c)...), nil, in, c)
				}
			}
		}
		fr.safe(st, "nil", Not(Eq(IfTag(recv), IntLit64(0))), in, "method call on nil interface")
		if ct := eng.typeContract(c.Value.Type(), c.Method.Name()); ct != nil {
			sig := c.Method.Type().(*types.Signature)
			return fr.applyContract(st, ct, nil, sig, c.Value.Type(), append([]*Term{recv}, fr.args(c)...), in, c)
		}
		if r, ok := fr.ifaceModel(st, c, recv); ok {
			return r
		}
		ws := map[string]bool{}
		var cs []*ssa.Function
		eng.frames.callEffects(fr, c, ws, &cs)
		for _, f := range cs {
			eng.frames.addAll(ws, eng.frames.of(f, nil))
		}
		return fr.opaqueCall(st, c.Signature(), ws, "invoke "+c.Method.Name(), in)
	}
	switch v := c.Value.(type) {
	case *ssa.Builtin:
		return fr.builtin(st, v, c, in)
	case *ssa.Function:
		return fr.callFunc(st, v, fr.args(c), nil, in, c)
	case *ssa.MakeClosure:
		ref := fr.val(v)
		ci := eng.closures[ref]
		return fr.callFunc(st, v.Fn.(*ssa.Function), fr.args(c), fr.closureBinds(ref, ci), in, c)
	}
	// dynamic call through a function value
	fv := fr.val(c.Value)
	if ci := eng.closures[fv]; ci != nil {
		return fr.callFunc(st, ci.fn, fr.args(c), fr.closureBinds(fv, ci), in, c)
	}
	if fv.IsLit() && fv.val != nil {
		for f, id := range eng.funcIDs {
			if int64(id) == fv.val.Int64() {
				return fr.callFunc(st, f, fr.args(c), nil, in, c)
			}
		}
	}
	if named, ok := c.Value.Type().(*types.Named); ok {
		if ct := eng.typeContract(named, ""); ct != nil {
			return fr.applyContract(st, ct, nil, c.Signature(), nil, fr.args(c), in, c)
		}
	}
	fr.safe(st, "nil", Not(Eq(fv, IntLit64(0))), in, "call of nil function")
	ws := map[string]bool{}
	var cs []*ssa.Function
	eng.frames.callEffects(fr, c, ws, &cs)
	for _, f := range cs {
		eng.frames.addAll(ws, eng.frames.of(f, nil))
	}
	return fr.opaqueCall(st, c.Signature(), ws, "dynamic call", in)
}

func (fr *Frame) closureBinds(ref *Term, ci *closureInfo) []*Term {
	if ci == nil {
		return nil
	}
	return ci.binds
}

func (fr *Frame) callFunc(st *State, f *ssa.Function, args []*Term, binds []*Term, in ssa.Instruction, c *ssa.CallCommon) []*Term {
	fc := fr.fc
	eng := fc.eng
	if fc.initMode && f.Pkg != nil && f == f.Pkg.Func("init") {
		return nil // other packages' initialisers are evaluated on demand
	}
	if r, ok := fr.libModel(st, f, args, in, c); ok {
		return r
	}
	ct := eng.contractOf(f)
	if tr := os.Getenv("GOVC_TRACE"); tr != "" && strings.Contains(f.String(), tr) {
		fmt.Fprintf(os.Stderr, "TRACE call %s ct=%v key=%s\n", f.String(), ct != nil, funcPkgPath(f)+"::"+contractKey(f))
		if ct != nil {
			fmt.Fprintf(os.Stderr, "TRACE   ensures=%d requires=%d trusted=%v inline=%v opaque=%v keeps=%v\n", len(ct.ensures), len(ct.requires), ct.trusted, ct.inline, ct.isOpaque(), ct.keeps)
		}
	}
	if ct != nil && !ct.inline && !ct.isOpaque() && (len(ct.ensures) > 0 || len(ct.requires) > 0 || ct.hasAssgn || ct.trusted || ct.modular) {
		return fr.applyContract(st, ct, f, f.Signature, nil, args, in, c)
	}
	if (ct == nil || !ct.isOpaque()) && eng.canInline(fr, f, ct) {
		return fr.inline(st, f, args, binds, in)
	}
	ws := eng.frames.of(f, c)
	if ct != nil && len(ct.keeps) > 0 {
		w2 := map[string]bool{}
		for k := range ws {
			w2[k] = true
		}
		for _, k := range ct.keeps {
			delete(w2, k)
		}
		ws = w2
		fc.trusted[ct.pkgPath+"::"+ct.key+" (keeps "+strings.Join(ct.keeps, ",")+")"] = true
	}
	return fr.opaqueCall(st, f.Signature, ws, f.String(), in)
}

func (eng *Engine) canInline(fr *Frame, f *ssa.Function, ct *Contract) bool {
	if len(f.Blocks) == 0 {
		return false
	}
	if !eng.inModule(f) && !eng.inlineExternal[funcPkgPath(f)] {
		return false
	}
	if purePkgs[funcPkgPath(f)] {
		return false // logging / metrics: effect-free on modelled state, never looked into
	}
	if fr.depth >= maxInlineDepth {
		return false
	}
	for _, g := range eng.inlineStack {
		if g == f {
			return false
		}
	}
	if f.Recover != nil {
		return false
	}
	force := ct != nil && ct.inline
	n := 0
	for _, b := range f.Blocks {
		n += len(b.Instrs)
		for _, s := range b.Succs {
			if s.Dominates(b) && !force {
				return false // loop
			}
		}
		for _, in := range b.Instrs {
			switch in.(type) {
			case *ssa.Select, *ssa.Go:
				return false
			}
		}
	}
	if force {
		return true
	}
	return n <= 120
}

func (fr *Frame) inline(st *State, f *ssa.Function, args []*Term, binds []*Term, in ssa.Instruction) []*Term {
	fc := fr.fc
	eng := fc.eng
	fc.inlined[f.String()] = true
	sub := &Frame{fc: fc, fn: f, vals: map[ssa.Value]*Term{}, tuples: map[ssa.Value][]*Term{}, addrs: map[ssa.Value]*Addr{}, depth: fr.depth + 1, binds: binds}
	sub.prefix = fr.oname() + ">" + shortFuncName(f)
	if len(args) != len(f.Params) {
		panic(fmt.Sprintf("inline %s: %d args for %d params", f, len(args), len(f.Params)))
	}
	for i, p := range f.Params {
		sub.vals[p] = args[i]
	}
	eng.inlineStack = append(eng.inlineStack, f)
	exit, res := sub.exec(st)
	eng.inlineStack = eng.inlineStack[:len(eng.inlineStack)-1]
	// the callee's path condition is relative to the caller's: exit.pc already includes st.pc
	keepPC := exit.pc
	*st = *exit
	st.pc = keepPC
	// drop the callee's private locals
	for k := range st.heap {
		_ = k
	}
	if res == nil {
		// no normal return (callee always panics)
		n := f.Signature.Results().Len()
		for i := 0; i < n; i++ {
			res = append(res, ZeroOf(f.Signature.Results().At(i).Type()))
		}
	}
	return res
}

func shortFuncName(f *ssa.Function) string {
	s := f.String()
	if i := strings.LastIndex(s, "/"); i >= 0 {
		s = s[i+1:]
	}
	s = strings.NewReplacer("(", "", ")", "", "*", "").Replace(s)
	return s
}

// opaqueCall: unknown body. Havoc the inferred frame, return unconstrained results.
func (fr *Frame) opaqueCall(st *State, sig *types.Signature, ws map[string]bool, what string, in ssa.Instruction) []*Term {
	fc := fr.fc
	fc.opaque[what] = true
	if fc.initMode && os.Getenv("GOVC_DEBUG") != "" {
		var ks []string
		for k := range ws {
			ks = append(ks, k)
		}
		sort.Strings(ks)
		fmt.Fprintf(os.Stderr, "init %s: opaque %s havocs %v\n", fc.fn, what, ks)
	}
	fr.havocClasses(st, ws, "call")
	var res []*Term
	rs := sig.Results()
	for i := 0; i < rs.Len(); i++ {
		t := fc.fresh("ret."+shortName(what), SortOf(rs.At(i).Type()))
		fr.typeInv(st, t, rs.At(i).Type())
		res = append(res, t)
	}
	return res
}

func shortName(s string) string {
	if i := strings.LastIndex(s, "."); i >= 0 && i+1 < len(s) {
		s = s[i+1:]
	}
	return sanitize(s)
}

// applyContract: modular call. Check requires, havoc assigns, assume ensures.
func (fr *Frame) applyContract(st *State, ct *Contract, f *ssa.Function, sig *types.Signature, recvType types.Type, args []*Term, in ssa.Instruction, c *ssa.CallCommon) []*Term {
	fc := fr.fc
	eng := fc.eng
	ct.used = true
	fc.usedCtr[ct.pkgPath+"::"+ct.key] = true
	if ct.trusted {
		fc.trusted[ct.pkgPath+"::"+ct.key] = true
	}
	if ct.hasAssgn && ct.noframe && !ct.trusted {
		fc.trusted[ct.pkgPath+"::"+ct.key+" (frame not checked: noframe)"] = true
	}
	for _, cl := range ct.ensures {
		if cl.kind == "axiom" {
			fc.trusted[ct.pkgPath+"::"+ct.key+" (axiom: "+cl.text+")"] = true
		}
	}
	pre := st.clone()
	mkEnv := func(cur *State) *Env {
		env := &Env{fr: fr, fc: fc, st: cur, old: pre, vars: map[string]envVar{}, bound: map[string]envVar{}, lets: map[string]Expr{}}
		i := 0
		if sig.Recv() != nil || recvType != nil {
			nm := "self"
			var rt types.Type = recvType
			if sig.Recv() != nil {
				if sig.Recv().Name() != "" && sig.Recv().Name() != "_" {
					nm = sig.Recv().Name()
				}
				if rt == nil {
					rt = sig.Recv().Type()
				}
			}
			if f != nil && len(f.Params) > 0 && sig.Recv() != nil {
				nm = f.Params[0].Name()
			}
			env.vars[nm] = envVar{t: args[0], ty: rt}
			env.vars["self"] = envVar{t: args[0], ty: rt}
			i = 1
		}
		ps := sig.Params()
		for j := 0; j < ps.Len(); j++ {
			nm := ps.At(j).Name()
			if f != nil && i+j < len(f.Params) {
				nm = f.Params[i+j].Name()
			}
			if i+j < len(args) {
				env.vars[nm] = envVar{t: args[i+j], ty: ps.At(j).Type()}
				env.vars[fmt.Sprintf("arg%d", j)] = envVar{t: args[i+j], ty: ps.At(j).Type()}
			}
		}
		for _, l := range ct.lets {
			env.lets[l.name] = l.expr
		}
		env.pkg = eng.pkgByPath(ct.pkgPath)
		return env
	}
	// 1. preconditions
	env0 := mkEnv(st)
	guard := True
	for i, cl := range ct.requires {
		g := env0.boolExpr(cl.expr)
		if cl.kind == "assume" {
			continue
		}
		if len(cl.ids) > 0 && !sharesID(cl.ids, eng.topIDs()) && fr.safeIDs() == nil {
			// a precondition stated for another property: this caller does not have to
			// establish it, and then may rely on the postconditions only where it holds
			guard = And(guard, g)
			continue
		}
		ids := eng.topIDs()
		name := fc.site(fmt.Sprintf("%s#pre@%s.%d", fr.oname(), ct.key, i+1))
		fc.oblige(name, "pre", ids, st.pc, g, cl, "precondition of "+ct.key+": "+cl.text+fr.posOf(in))
		fc.assume(st.pc, g)
	}
	// 2. frame
	if ct.hasAssgn {
		fr.havocAssigns(st, ct, env0)
	}
	if !ct.hasAssgn || ct.inferRest {
		ws := map[string]bool{}
		if f != nil && !ct.inferRest {
			eng.frames.addAll(ws, eng.frames.of(f, c))
		} else if f != nil {
			eng.frames.addAll(ws, eng.frames.bodyOf(f))
		} else if c != nil {
			var cs []*ssa.Function
			eng.frames.callEffects(fr, c, ws, &cs)
			for _, g := range cs {
				eng.frames.addAll(ws, eng.frames.of(g, nil))
			}
		}
		if ct.inferRest && f != nil {
			// 'assigns <items>, inferred': within a class the items name, only those locations
			// are written (havocAssigns above forgot exactly them; the callee's own
			// #frame obligations for these classes check it); 'inferred' supplies the rest
			ex := map[string]bool{}
			eng.assignClasses(f, ct, ex)
			for k := range ex {
				delete(ws, k)
			}
		}
		if len(ct.keeps) > 0 {
			// trusted partial frame: the named classes are not written
			for _, k := range ct.keeps {
				delete(ws, k)
			}
			fc.trusted[ct.pkgPath+"::"+ct.key+" (keeps "+strings.Join(ct.keeps, ",")+")"] = true
		}
		fr.havocClasses(st, ws, "call."+shortName(ct.key))
	}
	if ct.hasAssgn {
		if fc.initMode && st.alloc.IsLit() {
			st.alloc = iAdd(st.alloc, IntLit64(1<<20))
		} else {
			na := fc.fresh("alloc.call", SInt)
			fc.assume(True, Op(">=", SBool, na, st.alloc))
			st.alloc = na
		}
	}
	// 3. results
	var res []*Term
	rs := sig.Results()
	for i := 0; i < rs.Len(); i++ {
		t := fc.fresh("ret."+shortName(ct.key), SortOf(rs.At(i).Type()))
		fr.typeInv(st, t, rs.At(i).Type())
		res = append(res, t)
	}
	// 4. postconditions
	env1 := mkEnv(st)
	env1.bindResults(sig, res)
	for _, cl := range ct.ensures {
		g := env1.boolExpr(cl.expr)
		if os.Getenv("GOVC_TRACE") != "" && strings.Contains(ct.key, os.Getenv("GOVC_TRACE")) {
			fmt.Fprintf(os.Stderr, "TRACE %s in %s: ensures %q pc=%v guard=%v nassump=%d\n", ct.key, fr.oname(), cl.text, st.pc == False, guard == True, len(fc.assumps))
		}
		fc.assume(st.pc, Implies(guard, g))
	}
	return res
}

func sharesID(a, b []string) bool {
	for _, x := range a {
		for _, y := range b {
			if x == y {
				return true
			}
		}
	}
	return false
}

// havocAssigns forgets exactly the locations named by the assigns clause.
func (fr *Frame) havocAssigns(st *State, ct *Contract, env *Env) {
	fc := fr.fc
	for _, item := range ct.assigns {
		switch {
		case strings.HasPrefix(item, "class "):
			k := strings.TrimSpace(item[6:])
			if s, ok := fc.heapSorts[k]; ok {
				st.heap[k] = fc.fresh("hv.assign."+k, s)
			}
			continue
		case fc.eng.contracts.ghosts[item] != nil:
			g := fc.eng.contracts.ghosts[item]
			fc.heapSorts["ghost:"+item] = g.sort
			st.heap["ghost:"+item] = fc.fresh("ghost."+item, g.sort)
			continue
		}
		e, err := ParseExpr(strings.TrimSuffix(strings.TrimSuffix(item, "[..]"), "[*]"))
		if err != nil {
			efail("assigns item %q: %v", item, err)
		}
		whole := strings.HasSuffix(item, "[..]") || strings.HasSuffix(item, "[*]")
		fr.havocLoc(st, env, e, whole, item)
	}
}

func (fr *Frame) havocLoc(st *State, env *Env, e Expr, elems bool, item string) {
	fc := fr.fc
	// locations are designated in the pre-call state (an assigned field may itself be havocked)
	saved := env.st
	if env.old != nil {
		env.st = env.old
	} else {
		env.st = st
	}
	defer func() { env.st = saved }()
	switch x := e.(type) {
	case *ESel:
		bt, bty := env.eval(x.X)
		pt, ok := bty.Underlying().(*types.Pointer)
		if !ok {
			efail("assigns %s: base is not a pointer", item)
		}
		s := pt.Elem().Underlying().(*types.Struct)
		idx, _ := findField(s, x.Name)
		if idx < 0 {
			efail("assigns %s: no such field", item)
		}
		a := fc.fieldAddr(bt, pt.Elem(), idx)
		ft := s.Field(idx).Type()
		if elems {
			sl, ok := ft.Underlying().(*types.Slice)
			if !ok {
				efail("assigns %s: not a slice field", item)
			}
			v := fc.load(env.st, a)
			fr.havocRow(st, sl.Elem(), SlArr(v))
			return
		}
		nv := fc.fresh("assign."+x.Name, SortOf(ft))
		fr.typeInv(st, nv, ft)
		fc.store(st, a, nv)
	case *EUn:
		if x.Op != "*" {
			efail("assigns %s: unsupported", item)
		}
		t, ty := env.eval(x.X)
		pt := ty.Underlying().(*types.Pointer)
		a := fc.derefAddr(t, pt.Elem())
		if a.kind == "structref" {
			s := pt.Elem().Underlying().(*types.Struct)
			for i := 0; i < s.NumFields(); i++ {
				fa := fc.fieldAddr(t, pt.Elem(), i)
				nv := fc.fresh("assign.f", SortOf(s.Field(i).Type()))
				fr.typeInv(st, nv, s.Field(i).Type())
				fc.store(st, fa, nv)
			}
			return
		}
		nv := fc.fresh("assign.deref", SortOf(pt.Elem()))
		fr.typeInv(st, nv, pt.Elem())
		fc.store(st, a, nv)
	case *EIdent:
		t, ty := env.eval(x)
		if ty == nil {
			efail("assigns %s: untyped", item)
		}
		switch u := ty.Underlying().(type) {
		case *types.Slice:
			fr.havocRowRange(st, u.Elem(), t)
		case *types.Map:
			hk, hs, vk, vs := mapClasses(u)
			hh := fc.get(st, hk, hs)
			vh := fc.get(st, vk, vs)
			_, hrow := hs.ArrParts()
			_, vrow := vs.ArrParts()
			st.heap[hk] = Store(hh, t, fc.fresh("assign.maphas", hrow))
			st.heap[vk] = Store(vh, t, fc.fresh("assign.mapval", vrow))
		case *types.Pointer:
			if isBigInt(u.Elem()) {
				h := fc.get(st, "big", SArr(SRef, SInt))
				st.heap["big"] = Store(h, t, fc.fresh("assign.big", SInt))
				return
			}
			fr.havocLoc(st, env, &EUn{"*", x}, false, item)
		default:
			efail("assigns %s: unsupported type %s", item, ty)
		}
	case *ECall:
		if x.Fun == "big" {
			t, _ := env.eval(x.Args[0])
			h := fc.get(st, "big", SArr(SRef, SInt))
			st.heap["big"] = Store(h, t, fc.fresh("assign.big", SInt))
			return
		}
		if x.Fun == "lockdepth" {
			t, _ := env.eval(x.Args[0])
			h := fc.get(st, "lock", SArr(SRef, SInt))
			st.heap["lock"] = Store(h, t, fc.fresh("assign.lock", SInt))
			return
		}
		if x.Fun == "atomicfield" {
			sel := x.Args[0].(*ESel)
			bt, bty := env.eval(sel.X)
			pt := bty.Underlying().(*types.Pointer)
			idx, _ := findField(pt.Elem().Underlying().(*types.Struct), sel.Name)
			cls := "A:" + fieldClass(pt.Elem(), idx)
			h := fc.get(st, cls, SArr(SRef, SIface))
			st.heap[cls] = Store(h, bt, fc.fresh("assign.atomic", SIface))
			return
		}
		efail("assigns %s: unsupported", item)
	default:
		efail("assigns %s: unsupported form", item)
	}
}

func (fr *Frame) havocRow(st *State, elem types.Type, arr *Term) {
	fc := fr.fc
	cls := elemClass(elem)
	s := elemClassSort(elem)
	h := fc.get(st, cls, s)
	_, row := s.ArrParts()
	st.heap[cls] = Store(h, arr, fc.fresh("assign.row", row))
}

// havocRowRange forgets exactly the elements [off, off+len) of the slice's backing array.
func (fr *Frame) havocRowRange(st *State, elem types.Type, sl *Term) {
	fc := fr.fc
	cls := elemClass(elem)
	s := elemClassSort(elem)
	h := fc.get(st, cls, s)
	_, row := s.ArrParts()
	old := Select(h, SlArr(sl))
	nr := fc.fresh("assign.row", row)
	k := BVar("k", SBV64)
	inside := And(bvCmp("bvule", SlOff(sl), k), bvCmp("bvult", k, bvBin("bvadd", SlOff(sl), SlLen(sl))))
	fc.assume(True, Forall([]*Term{k}, Implies(Not(inside), Eq(Select(nr, k), Select(old, k))), []*Term{Select(nr, k)}))
	st.heap[cls] = Store(h, SlArr(sl), nr)
}

// assignClasses over-approximates an assigns clause by heap classes (for callers' frame inference).
func (eng *Engine) assignClasses(f *ssa.Function, ct *Contract, ws map[string]bool) {
	sig := f.Signature
	lookup := func(name string) types.Type {
		for _, p := range f.Params {
			if p.Name() == name {
				return p.Type()
			}
		}
		_ = sig
		return nil
	}
	for _, item := range ct.assigns {
		if strings.HasPrefix(item, "class ") {
			ws[strings.TrimSpace(item[6:])] = true
			continue
		}
		if eng.contracts.ghosts[item] != nil {
			ws["ghost:"+item] = true
			continue
		}
		base := strings.TrimSuffix(strings.TrimSuffix(item, "[..]"), "[*]")
		elems := base != item
		e, err := ParseExpr(base)
		if err != nil {
			continue
		}
		var typeOf func(e Expr) types.Type
		typeOf = func(e Expr) types.Type {
			switch x := e.(type) {
			case *EIdent:
				return lookup(x.Name)
			case *ESel:
				bt := typeOf(x.X)
				if bt == nil {
					return nil
				}
				if p, ok := bt.Underlying().(*types.Pointer); ok {
					bt = p.Elem()
				}
				if s, ok := bt.Underlying().(*types.Struct); ok {
					if i, _ := findField(s, x.Name); i >= 0 {
						return s.Field(i).Type()
					}
				}
			case *EUn:
				bt := typeOf(x.X)
				if bt != nil {
					if p, ok := bt.Underlying().(*types.Pointer); ok {
						return p.Elem()
					}
				}
			}
			return nil
		}
		switch x := e.(type) {
		case *ESel:
			bt := typeOf(x.X)
			if bt == nil {
				continue
			}
			if p, ok := bt.Underlying().(*types.Pointer); ok {
				if s, ok := p.Elem().Underlying().(*types.Struct); ok {
					if i, _ := findField(s, x.Name); i >= 0 {
						if elems {
							if sl, ok := s.Field(i).Type().Underlying().(*types.Slice); ok {
								ws[elemClass(sl.Elem())] = true
							}
						} else {
							ws[fieldClass(p.Elem(), i)] = true
						}
					}
				}
			}
		case *EUn:
			if t := typeOf(x.X); t != nil {
				if p, ok := t.Underlying().(*types.Pointer); ok {
					eng.frames.pointeeClasses(p.Elem(), ws)
				}
			}
		case *EIdent:
			if t := typeOf(x); t != nil {
				switch u := t.Underlying().(type) {
				case *types.Slice:
					ws[elemClass(u.Elem())] = true
				case *types.Map:
					hk, _, vk, _ := mapClasses(u)
					ws[hk] = true
					ws[vk] = true
				case *types.Pointer:
					eng.frames.pointeeClasses(u.Elem(), ws)
				}
			}
		case *ECall:
			if x.Fun == "big" {
				ws["big"] = true
			}
			if x.Fun == "lockdepth" {
				ws["lock"] = true
			}
			if x.Fun == "atomicfield" {
				if sel, ok := x.Args[0].(*ESel); ok {
					if bt := typeOf(sel.X); bt != nil {
						if p, ok := bt.Underlying().(*types.Pointer); ok {
							if sst, ok := p.Elem().Underlying().(*types.Struct); ok {
								if i, _ := findField(sst, sel.Name); i >= 0 {
									ws["A:"+fieldClass(p.Elem(), i)] = true
								}
							}
						}
					}
				}
			}
		}
	}
}

func (eng *Engine) topIDs() []string {
	c := eng.topContract
	if c == nil {
		return nil
	}
	set := map[string]bool{}
	for _, cl := range c.ensures {
		for _, id := range cl.ids {
			set[id] = true
		}
	}
	for _, id := range c.nopanic {
		if id != "-" {
			set[id] = true
		}
	}
	var out []string
	for id := range set {
		out = append(out, id)
	}
	sort.Strings(out)
	return out
}
