package main

import (
	"bytes"
	"context"
	"fmt"
	"os"
	"os/exec"
	"path/filepath"
	"sort"
	"strings"
	"sync"
	"time"
)

type SolverCfg struct {
	outDir   string
	timeout  time.Duration // full timeout
	first    time.Duration // first attempt with the fastest solver
	workers  int
	seed     int
	keepSMT  bool
	noRetry  map[string]bool // known findings: expected not to discharge
	confirm  bool            // thorough tier: a discharged obligation is put to a second solver
}

// constsOf: set of free constant ids in a term (memoised).
var constCache = map[int][]int{}
var constMu sync.Mutex

func constsOf(t *Term) []int {
	if r, ok := constCache[t.id]; ok {
		return r
	}
	set := map[int]bool{}
	seen := map[int]bool{}
	var rec func(t *Term)
	rec = func(t *Term) {
		if seen[t.id] {
			return
		}
		seen[t.id] = true
		if r, ok := constCache[t.id]; ok {
			for _, c := range r {
				set[c] = true
			}
			return
		}
		if t.op == "const" {
			set[t.id] = true
			return
		}
		for _, a := range t.args {
			rec(a)
		}
	}
	rec(t)
	out := make([]int, 0, len(set))
	for c := range set {
		out = append(out, c)
	}
	sort.Ints(out)
	constCache[t.id] = out
	return out
}

// relevant selects the assumptions connected to the goal through shared constants.
// hubConst: allocation counters occur in almost every type-invariant assumption; they do not
// make two assumptions relevant to each other.
var hubCache = map[int]bool{}

func hubConst(id int) bool { return hubCache[id] && os.Getenv("GOVC_HUB") != "" } // experimental, off: dropped facts a proof needed

func relevant(assumps []*Term, roots []*Term) []*Term {
	inSet := map[int]bool{}
	for _, r := range roots {
		for _, c := range constsOf(r) {
			if !hubConst(c) {
				inSet[c] = true
			}
		}
	}
	type item struct {
		t      *Term
		consts []int
		taken  bool
	}
	items := make([]*item, len(assumps))
	for i, a := range assumps {
		items[i] = &item{t: a, consts: constsOf(a)}
	}
	for changed := true; changed; {
		changed = false
		for _, it := range items {
			if it.taken {
				continue
			}
			nonHub := 0
			hit := false
			for _, c := range it.consts {
				if hubConst(c) {
					continue
				}
				nonHub++
				if inSet[c] {
					hit = true
				}
			}
			if nonHub == 0 {
				hit = true // pure axioms and facts about the allocation counters only
			}
			if key, ok := hcKeyOf(it.t.id); ok {
				hit = inSet[key] // typing axiom of one heap version: only with that version
			}
			if hit {
				it.taken = true
				changed = true
				for _, c := range it.consts {
					if !hubConst(c) {
						inSet[c] = true
					}
				}
			}
		}
	}
	var out []*Term
	for _, it := range items {
		if it.taken {
			out = append(out, it.t)
		}
	}
	return out
}

// oneHop selects the assumptions that mention a constant of the roots directly (no transitive
// closure): a proof from fewer assumptions is still a proof, and obligations over a few ghost
// scalars at the end of a long function are decided from the handful of facts about them.
func oneHop(assumps []*Term, roots []*Term, hops int) []*Term {
	inSet := map[int]bool{}
	for _, r := range roots {
		for _, c := range constsOf(r) {
			inSet[c] = true
		}
	}
	taken := make([]bool, len(assumps))
	for h := 0; h < hops; h++ {
		add := map[int]bool{}
		for i, a := range assumps {
			if taken[i] {
				continue
			}
			cs := constsOf(a)
			hit := false
			for _, c := range cs {
				if inSet[c] {
					hit = true
					break
				}
			}
			if hit {
				taken[i] = true
				for _, c := range cs {
					add[c] = true
				}
			}
		}
		for c := range add {
			inSet[c] = true
		}
	}
	var out []*Term
	for i, a := range assumps {
		if taken[i] {
			out = append(out, a)
		}
	}
	return out
}

// buildNarrow: the obligation with only the assumptions one hop away from the goal (the path
// condition is kept whole). Used as a first, cheap attempt for very large queries.
func (eng *Engine) buildNarrow(fc *FuncCtx, o *Obligation) string {
	if o.expect == "sat" || o.useOverride {
		return ""
	}
	as := fc.assumps[:o.nassump]
	rel := oneHop(as, []*Term{o.goal}, 1)
	asserts := append([]*Term{}, rel...)
	// weaken the path condition to those of its top-level conjuncts that talk about the goal's
	// constants or about constants of the selected assumptions (proving the goal under a weaker
	// path condition proves it under the full one)
	var conj []*Term
	var flat func(t *Term)
	flat = func(t *Term) {
		if t.op == "and" {
			for _, a := range t.args {
				flat(a)
			}
			return
		}
		conj = append(conj, t)
	}
	flat(o.pc)
	roots := append([]*Term{o.goal}, rel...)
	pcs := oneHop(conj, roots, 1)
	asserts = append(asserts, And(append(pcs, Not(o.goal))...))
	var sb strings.Builder
	fmt.Fprintf(&sb, "; obligation %s (narrow attempt: assumptions one hop from the goal)\n", o.name)
	sb.WriteString(Script(&Prelude{specs: eng.specs}, asserts, nil))
	sb.WriteString("(check-sat)\n")
	return sb.String()
}

func (eng *Engine) buildScript(fc *FuncCtx, o *Obligation) string {
	as := fc.assumps[:o.nassump]
	if o.useOverride {
		as = o.override
	}
	var asserts []*Term
	var goal *Term
	if o.expect == "sat" {
		goal = And(o.pc, o.goal)
	} else {
		goal = And(o.pc, Not(o.goal))
	}
	rel := relevant(as, []*Term{goal})
	asserts = append(asserts, rel...)
	asserts = append(asserts, goal)
	var sb strings.Builder
	fmt.Fprintf(&sb, "; obligation %s\n; %s\n", o.name, strings.ReplaceAll(o.descr, "\n", " "))
	body := Script(&Prelude{specs: eng.specs}, asserts, o.params)
	sb.WriteString(body)
	sb.WriteString("(check-sat)\n")
	if len(o.params) > 0 && o.expect != "sat" {
		sb.WriteString("(get-value (")
		for _, p := range o.params {
			var b strings.Builder
			printTerm(&b, p, nil)
			sb.WriteString(b.String())
			sb.WriteString(" ")
		}
		sb.WriteString("))\n")
	}
	return sb.String()
}

type solverRun struct {
	name   string
	status string // sat unsat unknown timeout error
	out    string
	secs   float64
}

func runSolver(ctx context.Context, name string, file string, timeout time.Duration) solverRun {
	var cmd *exec.Cmd
	secs := int(timeout.Seconds())
	if secs < 1 {
		secs = 1
	}
	switch name {
	case "z3-new":
		cmd = exec.CommandContext(ctx, "z3-new", fmt.Sprintf("-T:%d", secs), file)
	case "z3":
		cmd = exec.CommandContext(ctx, "z3", fmt.Sprintf("-T:%d", secs), file)
	case "cvc5":
		cmd = exec.CommandContext(ctx, "cvc5", fmt.Sprintf("--tlimit=%d", secs*1000), file)
	}
	var out bytes.Buffer
	cmd.Stdout = &out
	cmd.Stderr = &out
	t0 := time.Now()
	_ = cmd.Run()
	r := solverRun{name: name, out: out.String(), secs: time.Since(t0).Seconds()}
	first := ""
	for _, ln := range strings.Split(r.out, "\n") {
		ln = strings.TrimSpace(ln)
		if ln == "" || strings.HasPrefix(ln, "WARNING") {
			continue // e.g. z3's "'if' cannot be used in patterns" (the pattern is then ignored)
		}
		first = ln
		break
	}
	switch {
	case first == "unsat":
		r.status = "unsat"
	case first == "sat":
		r.status = "sat"
	case first == "unknown":
		r.status = "unknown"
	case strings.Contains(first, "timeout") || ctx.Err() != nil || strings.Contains(r.out, "interrupted"):
		r.status = "timeout"
	default:
		r.status = "error"
	}
	return r
}

// solveOnce: a single z3 attempt (used for batches); leaves status empty unless discharged.
func (eng *Engine) solveOnce(body string, o *Obligation, cfg *SolverCfg) {
	t0 := time.Now()
	file := filepath.Join(cfg.outDir, oblFile(o)+".smt2")
	if os.WriteFile(file, []byte("(set-option :produce-models true)\n"+body), 0o644) != nil {
		return
	}
	ctx, cancel := context.WithTimeout(context.Background(), cfg.first+2*time.Second)
	r := runSolver(ctx, "z3-new", file, cfg.first)
	cancel()
	o.secs = time.Since(t0).Seconds()
	if r.status == "unsat" {
		o.status = "discharged"
		o.solver = "z3-new"
	}
	if !cfg.keepSMT {
		os.Remove(file)
	}
}

// solve decides one obligation. status: discharged | failed (sat, with model) | undecided
func (eng *Engine) solve(body string, o *Obligation, cfg *SolverCfg) {
	t0 := time.Now()
	base := filepath.Join(cfg.outDir, oblFile(o))
	script := "(set-option :produce-models true)\n" + body
	o.smt = base + ".smt2"
	if err := os.WriteFile(o.smt, []byte(script), 0o644); err != nil {
		o.status = "undecided"
		o.output = err.Error()
		return
	}
	want := "unsat"
	if o.expect == "sat" {
		want = "sat"
	}
	finish := func(r solverRun) bool {
		if r.status == "sat" || r.status == "unsat" {
			o.solver = r.name
			o.output = r.out
			if r.status == want {
				o.status = "discharged"
			} else {
				o.status = "failed"
			}
			return true
		}
		return false
	}
	// thorough tier: a proof found by one solver is shown to a second one; an answer "sat" from
	// it is a disagreement and is reported as a failure of the obligation
	defer func() {
		if !cfg.confirm || o.status != "discharged" || want != "unsat" || o.kind == "vacuity" {
			return
		}
		other := "z3"
		if o.solver == "z3" || o.solver == "cvc5" {
			other = "z3-new"
		}
		cf := base + ".confirm.smt2"
		if err := os.WriteFile(cf, []byte(script), 0o644); err != nil {
			return
		}
		ctx2, cancel2 := context.WithTimeout(context.Background(), 22*time.Second)
		r2 := runSolver(ctx2, other, cf, 20*time.Second)
		cancel2()
		if r2.status != "sat" {
			os.Remove(cf)
		}
		switch r2.status {
		case "unsat":
			o.confirmed = other
		case "sat":
			o.status = "failed"
			o.output = fmt.Sprintf("solver disagreement: %s proved the obligation, %s answers sat\n%s", o.solver, other, r2.out)
		}
	}()
	var log strings.Builder
	if o.narrow != "" && want == "unsat" {
		nf := base + ".narrow.smt2"
		_ = os.WriteFile(nf, []byte(o.narrow), 0o644)
		ctxn, canceln := context.WithTimeout(context.Background(), cfg.first+2*time.Second)
		rn := runSolver(ctxn, "z3-new", nf, cfg.first)
		canceln()
		fmt.Fprintf(&log, "[z3-new narrow %0.2fs] %s\n", rn.secs, rn.status)
		if rn.status == "unsat" {
			o.solver = "z3-new"
			o.output = log.String()
			o.status = "discharged"
			o.secs = time.Since(t0).Seconds()
			return
		}
	}
	// quick attempt
	ctx, cancel := context.WithTimeout(context.Background(), cfg.first+2*time.Second)
	r := runSolver(ctx, "z3-new", o.smt, cfg.first)
	cancel()
	fmt.Fprintf(&log, "[z3-new %0.2fs] %s\n", r.secs, r.status)
	if !finish(r) && o.kind == "vacuity" {
		// satisfiability under quantified assumptions is rarely decided; a vacuity check only
		// matters when it is refuted, so it gets the short budget only
		o.status = "undecided"
		o.output = log.String()
		o.secs = time.Since(t0).Seconds()
		return
	}
	if o.status == "" {
		// race all three
		cvcFile := base + ".cvc5.smt2"
		_ = os.WriteFile(cvcFile, []byte("(set-option :produce-models true)\n(set-logic ALL)\n"+body), 0o644)
		ctx, cancel := context.WithTimeout(context.Background(), cfg.timeout+2*time.Second)
		ch := make(chan solverRun, 3)
		go func() { ch <- runSolver(ctx, "z3-new", o.smt, cfg.timeout) }()
		go func() { ch <- runSolver(ctx, "z3", o.smt, cfg.timeout) }()
		go func() { ch <- runSolver(ctx, "cvc5", cvcFile, cfg.timeout) }()
		done := false
		for i := 0; i < 3; i++ {
			r := <-ch
			fmt.Fprintf(&log, "[%s %0.2fs] %s\n", r.name, r.secs, r.status)
			if r.status == "error" {
				fmt.Fprintf(&log, "%s\n", firstLines(r.out, 5))
			}
			if !done && finish(r) {
				done = true
				cancel()
			}
		}
		cancel()
		if !done {
			o.status = "undecided"
			o.output = log.String()
		}
		if !cfg.keepSMT {
			os.Remove(cvcFile)
		}
	}
	o.secs = time.Since(t0).Seconds()
	if o.status == "failed" && o.expect != "sat" {
		// prefer a counterexample with short byte slices / strings: it can be replayed
		if len(o.small) > 0 {
			var extra strings.Builder
			for _, t := range o.small {
				var b strings.Builder
				printTerm(&b, t, nil)
				fmt.Fprintf(&extra, "(assert %s)\n", b.String())
			}
			small := strings.Replace(script, "(check-sat)\n", extra.String()+"(check-sat)\n", 1)
			smallFile := base + ".small.smt2"
			if os.WriteFile(smallFile, []byte(small), 0o644) == nil {
				ctx, cancel := context.WithTimeout(context.Background(), 12*time.Second)
				r := runSolver(ctx, "z3-new", smallFile, 10*time.Second)
				cancel()
				if r.status == "sat" {
					o.output = r.out
					o.smt = smallFile
					fmt.Fprintf(&log, "[z3-new %0.2fs] sat with inputs of length <= 128\n", r.secs)
				} else {
					os.Remove(smallFile)
				}
			}
		}
		o.model = parseModel(o.output, o.pnames)
	}
	if o.status == "discharged" && !cfg.keepSMT {
		os.Remove(o.smt)
	}
	o.output = log.String() + o.output
}

func firstLines(s string, n int) string {
	ls := strings.Split(s, "\n")
	if len(ls) > n {
		ls = ls[:n]
	}
	return strings.Join(ls, "\n")
}

// oblFile gives every obligation its own query file: two back edges of one loop (or two sites)
// can generate obligations with the same name, and solver workers run concurrently - sharing a
// file let one query be answered with the other's verdict.
var (
	oblFileMu   sync.Mutex
	oblFileOf   = map[*Obligation]string{}
	oblFileSeen = map[string]int{}
)

func oblFile(o *Obligation) string {
	oblFileMu.Lock()
	defer oblFileMu.Unlock()
	if f, ok := oblFileOf[o]; ok {
		return f
	}
	f := sanitizeFile(o.name)
	oblFileSeen[f]++
	if n := oblFileSeen[f]; n > 1 {
		f = fmt.Sprintf("%s~%d", f, n)
	}
	oblFileOf[o] = f
	return f
}

func sanitizeFile(s string) string {
	var sb strings.Builder
	for _, r := range s {
		switch {
		case r >= 'a' && r <= 'z', r >= 'A' && r <= 'Z', r >= '0' && r <= '9', r == '_', r == '.', r == '-', r == '#', r == '@':
			sb.WriteRune(r)
		default:
			sb.WriteByte('_')
		}
	}
	return sb.String()
}

// parseModel extracts "(get-value ...)" pairs in order.
func parseModel(out string, names []string) map[string]string {
	i := strings.Index(out, "((")
	if i < 0 {
		return nil
	}
	sx, err := parseSexp(out[i:])
	if err != nil || !sx.isL {
		return nil
	}
	m := map[string]string{}
	for k, pair := range sx.list {
		if pair.isL && len(pair.list) == 2 && k < len(names) {
			m[names[k]] = pair.list[1].String()
		}
	}
	return m
}

func (eng *Engine) solveAll(results []*FuncResult, cfg *SolverCfg, filter func(o *Obligation) bool) {
	type job struct {
		fc *FuncCtx
		o  *Obligation
	}
	var jobs []job
	for _, r := range results {
		if r.fc == nil {
			continue
		}
		for _, o := range r.fc.obls {
			if filter == nil || filter(o) {
				jobs = append(jobs, job{r.fc, o})
			}
		}
	}
	// script construction touches the shared term pool: build sequentially, solve in parallel
	var wg sync.WaitGroup
	sem := make(chan struct{}, cfg.workers)
	// Batch the safety obligations of one function into a single query first: the assumptions
	// "the earlier check passed" are exactly the earlier goals, so the conjunction of all goals
	// is proved from the remaining assumptions alone (no circularity). When the batch is
	// discharged every member is; otherwise the members are solved one by one below.
	type batch struct {
		fc  *FuncCtx
		mem []*Obligation
	}
	batches := map[*FuncCtx]*batch{}
	var border []*batch
	for _, j := range jobs {
		if j.o.kind == "safe" && j.o.expect == "unsat" && j.o.goal != True && j.o.pc != False {
			b := batches[j.fc]
			if b == nil {
				b = &batch{fc: j.fc}
				batches[j.fc] = b
				border = append(border, b)
			}
			b.mem = append(b.mem, j.o)
		}
	}
	for _, b := range border {
		if len(b.mem) < 4 {
			continue
		}
		b := b
		maxN := 0
		var conj []*Term
		for _, o := range b.mem {
			if o.nassump > maxN {
				maxN = o.nassump
			}
			conj = append(conj, Implies(o.pc, o.goal))
		}
		var as []*Term
		for i, a := range b.fc.assumps[:maxN] {
			if !b.fc.safeAssump[i] {
				as = append(as, a)
			}
		}
		syn := &Obligation{name: b.fc.fn + "#safe.batch", kind: "safe", fn: b.fc.fn, pc: True, goal: And(conj...), expect: "unsat", override: as, useOverride: true, descr: fmt.Sprintf("%d safety obligations of %s in one query", len(b.mem), b.fc.fn)}
		body := eng.buildScript(b.fc, syn)
		wg.Add(1)
		sem <- struct{}{}
		go func() {
			defer wg.Done()
			defer func() { <-sem }()
			c2 := *cfg
			c2.first = cfg.first * 2
			eng.solveOnce(body, syn, &c2)
			if syn.status == "discharged" {
				for _, o := range b.mem {
					o.status = "discharged"
					o.solver = syn.solver + "(batch)"
					o.secs = syn.secs / float64(len(b.mem))
				}
			}
		}()
	}
	wg.Wait()
	for _, j := range jobs {
		j := j
		if j.o.status == "discharged" {
			continue
		}
		if j.o.expect != "sat" && (j.o.goal == True || j.o.pc == False) {
			if os.Getenv("GOVC_DEBUG") != "" {
				fmt.Fprintf(os.Stderr, "simplifier discharges %s (goal true: %v, pc false: %v)\n", j.o.name, j.o.goal == True, j.o.pc == False)
			}
			j.o.status = "discharged"
			j.o.solver = "simplifier"
			continue
		}
		if len(j.o.parts) > 1 {
			// a postcondition over several return statements: one query per return (all must be
			// discharged); the first part that is not discharged decides the outcome
			var bodies []string
			var subs []*Obligation
			for k, p := range j.o.parts {
				sub := *j.o
				sub.parts = nil
				sub.goal = p
				sub.name = fmt.Sprintf("%s.ret%d", j.o.name, k+1)
				bodies = append(bodies, eng.buildScript(j.fc, &sub))
				s := sub
				subs = append(subs, &s)
			}
			wg.Add(1)
			sem <- struct{}{}
			go func() {
				defer wg.Done()
				defer func() { <-sem }()
				t0 := time.Now()
				j.o.status = "discharged"
				allConfirmed := true
				defer func() {
					if j.o.status == "discharged" && allConfirmed && cfg.confirm {
						j.o.confirmed = "second solver, every return path"
					}
				}()
				for k, sub := range subs {
					if sub.goal == True {
						continue
					}
					eng.solve(bodies[k], sub, cfg)
					j.o.solver = sub.solver
					if sub.confirmed == "" {
						allConfirmed = false
					}
					if sub.status != "discharged" {
						j.o.status, j.o.output, j.o.model, j.o.smt = sub.status, sub.output, sub.model, sub.smt
						break
					}
				}
				j.o.secs = time.Since(t0).Seconds()
			}()
			continue
		}
		body := eng.buildScript(j.fc, j.o)
		if len(body) > 150000 {
			j.o.narrow = eng.buildNarrow(j.fc, j.o)
		}
		wg.Add(1)
		sem <- struct{}{}
		go func() {
			defer wg.Done()
			defer func() { <-sem }()
			eng.solve(body, j.o, cfg)
		}()
	}
	wg.Wait()
	// obligations that timed out while the machine was saturated get one more attempt, alone,
	// with a tripled budget: a timeout under load must not be mistaken for a failed proof
	retry := *cfg
	retry.timeout = cfg.timeout * 3
	retry.first = cfg.first * 3
	nretry := 0
	for _, j := range jobs {
		if j.o.status == "undecided" && j.o.kind != "vacuity" && !cfg.noRetry[j.o.name] {
			if nretry++; nretry > 3 {
				break // many undecided obligations are not a load artefact
			}
			prev := j.o.output
			body := eng.buildScript(j.fc, j.o)
			eng.solve(body, j.o, &retry)
			j.o.output = prev + "--- retry alone ---\n" + j.o.output
		}
	}
}
