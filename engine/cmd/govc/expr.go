package main

// Contract expression language: tokenizer and Pratt parser.
//
//   e ::= e <==> e | e ==> e | e || e | e && e | !e | e cmp e | e arith e | -e | ^e | *e
//       | forall x T, y T :: {pat, pat} e | exists ...
//       | old(e) | f(args) | e.f | e[i] | e[lo:hi] | ident | number | "string" | (e)

import (
	"fmt"
	"math/big"
	"strings"
)

type Expr interface{}

type (
	EIdent struct{ Name string }
	ENum   struct{ Val *big.Int }
	EStr   struct{ S string }
	EBin   struct {
		Op   string
		L, R Expr
	}
	EUn struct {
		Op string
		X  Expr
	}
	ECall struct {
		Fun  string
		Args []Expr
	}
	ESel struct {
		X    Expr
		Name string
	}
	EIndex struct{ X, I Expr }
	ESlice struct{ X, Lo, Hi Expr }
	EQuant struct {
		Forall bool
		Vars   []QVar
		Pats   []Expr
		Body   Expr
	}
)

type QVar struct{ Name, Type string }

type tok_ struct {
	kind string // id num str op eof
	text string
	pos  int
}

func tokenize(s string) ([]tok_, error) {
	var toks []tok_
	i := 0
	ops := []string{"<==>", "==>", "&&", "||", "==", "!=", "<=", ">=", "<<", ">>", "&^", "::", "..", "+", "-", "*", "/", "%", "&", "|", "^", "<", ">", "!", "(", ")", "[", "]", "{", "}", ".", ",", ":", "?"}
	for i < len(s) {
		c := s[i]
		switch {
		case c == ' ' || c == '\t' || c == '\n':
			i++
		case c >= '0' && c <= '9':
			j := i
			for j < len(s) && (s[j] >= '0' && s[j] <= '9' || s[j] >= 'a' && s[j] <= 'f' || s[j] >= 'A' && s[j] <= 'F' || s[j] == 'x' || s[j] == 'X' || s[j] == '_') {
				j++
			}
			toks = append(toks, tok_{"num", s[i:j], i})
			i = j
		case c == '_' || c == '$' || c >= 'a' && c <= 'z' || c >= 'A' && c <= 'Z':
			j := i
			for j < len(s) && (s[j] == '_' || s[j] == '$' || s[j] >= 'a' && s[j] <= 'z' || s[j] >= 'A' && s[j] <= 'Z' || s[j] >= '0' && s[j] <= '9') {
				j++
			}
			toks = append(toks, tok_{"id", s[i:j], i})
			i = j
		case c == '"':
			j := i + 1
			for j < len(s) && s[j] != '"' {
				j++
			}
			if j >= len(s) {
				return nil, fmt.Errorf("unterminated string at %d", i)
			}
			toks = append(toks, tok_{"str", s[i+1 : j], i})
			i = j + 1
		default:
			found := false
			for _, op := range ops {
				if strings.HasPrefix(s[i:], op) {
					toks = append(toks, tok_{"op", op, i})
					i += len(op)
					found = true
					break
				}
			}
			if !found {
				return nil, fmt.Errorf("unexpected character %q at %d in %q", c, i, s)
			}
		}
	}
	toks = append(toks, tok_{"eof", "", len(s)})
	return toks, nil
}

type parser struct {
	toks []tok_
	p    int
	src  string
}

func ParseExpr(s string) (e Expr, err error) {
	toks, err := tokenize(s)
	if err != nil {
		return nil, err
	}
	ps := &parser{toks: toks, src: s}
	defer func() {
		if r := recover(); r != nil {
			if pe, ok := r.(parseErr); ok {
				err = fmt.Errorf("%s in %q", string(pe), s)
				return
			}
			panic(r)
		}
	}()
	e = ps.expr(0)
	if ps.peek().kind != "eof" {
		ps.fail("unexpected tok_ %q", ps.peek().text)
	}
	return e, nil
}

type parseErr string

func (p *parser) fail(f string, a ...interface{}) {
	panic(parseErr(fmt.Sprintf(f, a...) + fmt.Sprintf(" at offset %d", p.peek().pos)))
}
func (p *parser) peek() tok_ { return p.toks[p.p] }
func (p *parser) next() tok_ { t := p.toks[p.p]; p.p++; return t }
func (p *parser) isOp(s string) bool {
	t := p.peek()
	return t.kind == "op" && t.text == s
}
func (p *parser) expect(s string) {
	if !p.isOp(s) {
		p.fail("expected %q, got %q", s, p.peek().text)
	}
	p.next()
}

var binPrec = map[string]int{
	"<==>": 1, "==>": 2, "||": 3, "&&": 4,
	"==": 5, "!=": 5, "<": 5, "<=": 5, ">": 5, ">=": 5,
	"+": 6, "-": 6, "|": 6, "^": 6,
	"*": 7, "/": 7, "%": 7, "<<": 7, ">>": 7, "&": 7, "&^": 7,
}

func (p *parser) expr(minPrec int) Expr {
	lhs := p.unary()
	for {
		t := p.peek()
		if t.kind != "op" {
			return lhs
		}
		prec, ok := binPrec[t.text]
		if !ok || prec < minPrec {
			return lhs
		}
		p.next()
		var rhs Expr
		if t.text == "==>" || t.text == "<==>" {
			rhs = p.expr(prec) // right assoc
		} else {
			rhs = p.expr(prec + 1)
		}
		lhs = &EBin{t.text, lhs, rhs}
	}
}

func (p *parser) unary() Expr {
	t := p.peek()
	if t.kind == "op" {
		switch t.text {
		case "!", "-", "^", "*":
			p.next()
			x := p.unary()
			return &EUn{t.text, x}
		}
	}
	if t.kind == "id" && (t.text == "forall" || t.text == "exists") {
		p.next()
		q := &EQuant{Forall: t.text == "forall"}
		for {
			n := p.next()
			if n.kind != "id" {
				p.fail("expected bound variable name")
			}
			ty := p.next()
			if ty.kind != "id" {
				p.fail("expected bound variable type")
			}
			tname := ty.text
			if p.isOp(".") { // qualified named type: pkg.Type
				p.next()
				t2 := p.next()
				if t2.kind != "id" {
					p.fail("expected type name after '.'")
				}
				tname += "." + t2.text
			}
			q.Vars = append(q.Vars, QVar{n.text, tname})
			if p.isOp(",") {
				p.next()
				continue
			}
			break
		}
		p.expect("::")
		if p.isOp("{") {
			p.next()
			for {
				q.Pats = append(q.Pats, p.expr(0))
				if p.isOp(",") {
					p.next()
					continue
				}
				break
			}
			p.expect("}")
		}
		q.Body = p.expr(0)
		return q
	}
	return p.postfix(p.primary())
}

func (p *parser) primary() Expr {
	t := p.next()
	switch t.kind {
	case "num":
		txt := strings.ReplaceAll(t.text, "_", "")
		v, ok := new(big.Int).SetString(txt, 0)
		if !ok {
			p.fail("bad number %q", t.text)
		}
		return &ENum{v}
	case "str":
		return &EStr{t.text}
	case "id":
		return &EIdent{t.text}
	case "op":
		if t.text == "(" {
			e := p.expr(0)
			p.expect(")")
			return e
		}
	}
	p.p--
	p.fail("unexpected tok_ %q", t.text)
	return nil
}

func (p *parser) postfix(e Expr) Expr {
	for {
		switch {
		case p.isOp("."):
			p.next()
			n := p.next()
			if n.kind != "id" {
				p.fail("expected field name")
			}
			e = &ESel{e, n.text}
		case p.isOp("("):
			p.next()
			var args []Expr
			if !p.isOp(")") {
				for {
					args = append(args, p.expr(0))
					if p.isOp(",") {
						p.next()
						continue
					}
					break
				}
			}
			p.expect(")")
			name := ""
			switch f := e.(type) {
			case *EIdent:
				name = f.Name
			case *ESel:
				if id, ok := f.X.(*EIdent); ok {
					name = id.Name + "." + f.Name
				}
			}
			if name == "" {
				p.fail("call of non-identifier")
			}
			e = &ECall{name, args}
		case p.isOp("["):
			p.next()
			var lo, hi Expr
			if !p.isOp(":") {
				lo = p.expr(0)
			}
			if p.isOp(":") {
				p.next()
				if !p.isOp("]") {
					hi = p.expr(0)
				}
				p.expect("]")
				e = &ESlice{e, lo, hi}
			} else {
				p.expect("]")
				e = &EIndex{e, lo}
			}
		default:
			return e
		}
	}
}

func exprString(e Expr) string {
	switch x := e.(type) {
	case *EIdent:
		return x.Name
	case *ENum:
		return x.Val.String()
	case *EStr:
		return fmt.Sprintf("%q", x.S)
	case *EBin:
		return "(" + exprString(x.L) + " " + x.Op + " " + exprString(x.R) + ")"
	case *EUn:
		return x.Op + exprString(x.X)
	case *ECall:
		var as []string
		for _, a := range x.Args {
			as = append(as, exprString(a))
		}
		return x.Fun + "(" + strings.Join(as, ", ") + ")"
	case *ESel:
		return exprString(x.X) + "." + x.Name
	case *EIndex:
		return exprString(x.X) + "[" + exprString(x.I) + "]"
	case *ESlice:
		lo, hi := "", ""
		if x.Lo != nil {
			lo = exprString(x.Lo)
		}
		if x.Hi != nil {
			hi = exprString(x.Hi)
		}
		return exprString(x.X) + "[" + lo + ":" + hi + "]"
	case *EQuant:
		q := "exists"
		if x.Forall {
			q = "forall"
		}
		var vs []string
		for _, v := range x.Vars {
			vs = append(vs, v.Name+" "+v.Type)
		}
		return q + " " + strings.Join(vs, ", ") + " :: " + exprString(x.Body)
	}
	return "?"
}
