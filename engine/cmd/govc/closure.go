package main

// Heap well-typedness: every reference stored in a heap class at the time the class variable
// was introduced (function entry, or a havoc) designates an object that existed then.

import (
	"go/types"
	"strings"
)

// classVal: Go type of the values stored in a heap class (filled as classes are first used).
var classVal = map[string]types.Type{}

func noteClass(k string, t types.Type) {
	if _, ok := classVal[k]; !ok {
		classVal[k] = t
	}
}

// refBound returns the term(s) of v (a value of Go type t) that are references.
func refParts(v *Term, t types.Type) []*Term {
	switch u := t.Underlying().(type) {
	case *types.Pointer, *types.Map, *types.Chan:
		return []*Term{v}
	case *types.Slice:
		return []*Term{SlArr(v)}
	case *types.Interface:
		return []*Term{IfVal(v)}
	case *types.Struct:
		if isBigInt(t) {
			return nil
		}
		dt := TR.structDT(t)
		var out []*Term
		for i := 0; i < u.NumFields(); i++ {
			out = append(out, refParts(SelField(dt, i, v), u.Field(i).Type())...)
		}
		return out
	}
	return nil
}

// heapClosure assumes that all references held in class variable h (for class k) are <= alloc.
func (fc *FuncCtx) heapClosure(k string, h *Term, alloc *Term) {
	t, ok := classVal[k]
	if !ok || fc.initMode {
		return
	}
	var body func(v *Term) *Term
	body = func(v *Term) *Term {
		var cs []*Term
		for _, r := range refParts(v, t) {
			cs = append(cs, Op("<=", SBool, r, alloc), Op(">=", SBool, r, IntLit64(0)))
		}
		return And(cs...)
	}
	switch {
	case strings.HasPrefix(k, "F:") || strings.HasPrefix(k, "C:") || strings.HasPrefix(k, "Box:"):
		r := BVar("r", SRef)
		sel := Select(h, r)
		b := body(sel)
		if b != True {
			fc.assume(True, Forall([]*Term{r}, b, []*Term{sel}))
		}
	case strings.HasPrefix(k, "E:"):
		r := BVar("r", SRef)
		i := BVar("i", SBV64)
		sel := Select(Select(h, r), i)
		b := body(sel)
		if b != True {
			fc.assume(True, Forall([]*Term{r, i}, b, []*Term{sel}))
		}
	case strings.HasPrefix(k, "MV:"):
		_, row := h.sort.ArrParts()
		ks, _ := row.ArrParts()
		r := BVar("r", SRef)
		q := BVar("q", ks)
		sel := Select(Select(h, r), q)
		b := body(sel)
		if b != True {
			fc.assume(True, Forall([]*Term{r, q}, b, []*Term{sel}))
		}
	case strings.HasPrefix(k, "G:"):
		b := body(h)
		if b != True {
			fc.assume(True, b)
		}
	}
}
