package main

// Heap well-typedness: every reference stored in a heap class at the time the class variable
// was introduced (function entry, or a havoc) designates an object that existed then.

import (
	"sync"
	"go/types"
	"strings"

	"golang.org/x/tools/go/ssa"
)

// classVal: Go type of the values stored in a heap class (filled as classes are first used).
var classVal = map[string]types.Type{}

// classSorts: SMT sort of every heap class whose name was ever computed together with its Go
// type (also by the frame inference, which only produces names). A call-site havoc of a class
// the calling function has not read yet needs the sort to create the fresh heap: skipping
// such a havoc would let a later read see the pre-call heap.
var (
	classSorts   = map[string]Sort{"big": SArr(SRef, SInt), "lock": SArr(SRef, SInt), "ghost:$sent": SBV64, "ghost:$recv": SBV64}
	classSortsMu sync.Mutex
)

func regSort(k string, mk func() Sort) {
	classSortsMu.Lock()
	_, ok := classSorts[k]
	classSortsMu.Unlock()
	if ok {
		return
	}
	s := mk()
	classSortsMu.Lock()
	classSorts[k] = s
	classSortsMu.Unlock()
}

func sortOfClass(k string) (Sort, bool) {
	if strings.HasPrefix(k, "A:") {
		return SArr(SRef, SIface), true
	}
	classSortsMu.Lock()
	defer classSortsMu.Unlock()
	s, ok := classSorts[k]
	return s, ok
}

func noteClass(k string, t types.Type) {
	if _, ok := classVal[k]; !ok {
		classVal[k] = t
	}
}

// refBound returns the term(s) of v (a value of Go type t) that are references.
func refParts(v *Term, t types.Type) []*Term {
	switch u := t.Underlying().(type) {
	case *types.Pointer, *types.Map, *types.Chan:
		return []*Term{v}
	case *types.Slice:
		return []*Term{SlArr(v)}
	case *types.Interface:
		return []*Term{IfVal(v)}
	case *types.Struct:
		if isBigInt(t) {
			return nil
		}
		dt := TR.structDT(t)
		var out []*Term
		for i := 0; i < u.NumFields(); i++ {
			out = append(out, refParts(SelField(dt, i, v), u.Field(i).Type())...)
		}
		return out
	}
	return nil
}

// heapClosure assumes that all references held in class variable h (for class k) are <= alloc.
func (fc *FuncCtx) heapClosure(k string, h *Term, alloc *Term) {
	t, ok := classVal[k]
	if !ok || fc.initMode {
		return
	}
	var body func(v *Term) *Term
	body = func(v *Term) *Term {
		var cs []*Term
		for _, r := range refParts(v, t) {
			cs = append(cs, Op("<=", SBool, r, alloc), Op(">=", SBool, r, IntLit64(0)))
		}
		return And(cs...)
	}
	switch {
	case strings.HasPrefix(k, "F:") || strings.HasPrefix(k, "C:") || strings.HasPrefix(k, "Box:"):
		r := BVar("r", SRef)
		sel := Select(h, r)
		b := body(sel)
		if b != True {
			fc.assumeClosure(h, Forall([]*Term{r}, b, []*Term{sel}))
		}
	case strings.HasPrefix(k, "E:"):
		r := BVar("r", SRef)
		i := BVar("i", SBV64)
		sel := Select(Select(h, r), i)
		b := body(sel)
		if b != True {
			fc.assumeClosure(h, Forall([]*Term{r, i}, b, []*Term{sel}))
		}
	case strings.HasPrefix(k, "MV:"):
		_, row := h.sort.ArrParts()
		ks, _ := row.ArrParts()
		r := BVar("r", SRef)
		q := BVar("q", ks)
		sel := Select(Select(h, r), q)
		b := body(sel)
		if b != True {
			fc.assumeClosure(h, Forall([]*Term{r, q}, b, []*Term{sel}))
		}
	case strings.HasPrefix(k, "G:"):
		b := body(h)
		if b != True {
			fc.assumeClosure(h, b)
		}
	}
}

// loopFrame: automatic frame condition of a loop. When every write to a heap class inside the
// loop body is a direct store through a base (slice, array pointer or struct pointer) that is
// defined outside the loop, the rows / objects of all other bases are unchanged by the loop,
// whatever the number of iterations.
func (fr *Frame) loopFrame(li *loopInfo, before, after *State, ws map[string]bool) {
	fc := fr.fc
	outside := func(v ssa.Value) bool {
		switch x := v.(type) {
		case *ssa.Parameter, *ssa.Const, *ssa.FreeVar, *ssa.Global:
			return true
		case ssa.Instruction:
			return !li.body[x.Block()]
		}
		return false
	}
	bases := map[string][]*Term{}
	bad := map[string]bool{}
	for b := range li.body {
		for _, in := range b.Instrs {
			tmp := map[string]bool{}
			var callees []*ssa.Function
			fc.eng.frames.instrEffects(fr, in, tmp, &callees)
			for _, f := range callees {
				fc.eng.frames.addAll(tmp, fc.eng.frames.of(f, nil))
			}
			if len(tmp) == 0 {
				continue
			}
			st, isStore := in.(*ssa.Store)
			for k := range tmp {
				if !isStore {
					bad[k] = true
					bad[strings.TrimPrefix(k, freshOnly)] = true
					continue
				}
				switch a := st.Addr.(type) {
				case *ssa.IndexAddr:
					if !outside(a.X) {
						bad[k] = true
						continue
					}
					if _, known := fr.addrs[a.X]; known {
						bad[k] = true // array inside a local/struct: not an Elem row
						continue
					}
					switch a.X.Type().Underlying().(type) {
					case *types.Slice:
						bases[k] = append(bases[k], SlArr(fr.val(a.X)))
					case *types.Pointer:
						bases[k] = append(bases[k], fr.val(a.X))
					default:
						bad[k] = true
					}
				case *ssa.FieldAddr:
					if !outside(a.X) {
						bad[k] = true
						continue
					}
					if _, known := fr.addrs[a.X]; known {
						bad[k] = true
						continue
					}
					bases[k] = append(bases[k], fr.val(a.X))
				default:
					bad[k] = true
				}
			}
		}
	}
	for k, bs := range bases {
		if bad[k] || !ws[k] || !(strings.HasPrefix(k, "E:") || strings.HasPrefix(k, "F:")) {
			continue
		}
		s, ok := fc.heapSorts[k]
		if !ok {
			continue
		}
		h0 := fc.get(before, k, s)
		h1 := fc.get(after, k, s)
		r := BVar("r", SRef)
		var conds []*Term
		for _, b := range bs {
			conds = append(conds, Not(Eq(r, b)))
		}
		fc.assume(True, Forall([]*Term{r}, Implies(And(conds...), Eq(Select(h1, r), Select(h0, r))), []*Term{Select(h1, r)}))
	}
}

// hcKey: heap-typing axioms (about one heap version h) by term id -> id of h. Such an axiom
// matters only to a query that mentions h; the allocation counter it also mentions occurs
// almost everywhere and must not pull it in (see relevant).
var (
	hcKey   = map[int]int{}
	hcKeyMu sync.Mutex
)

func (fc *FuncCtx) assumeClosure(h *Term, ax *Term) {
	if h.op == "const" && ax != True {
		hcKeyMu.Lock()
		hcKey[ax.id] = h.id
		hcKeyMu.Unlock()
	}
	fc.assume(True, ax)
}

func hcKeyOf(id int) (int, bool) {
	hcKeyMu.Lock()
	defer hcKeyMu.Unlock()
	k, ok := hcKey[id]
	return k, ok
}
