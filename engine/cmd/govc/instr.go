package main

import (
	"fmt"
	"go/types"

	"golang.org/x/tools/go/ssa"
)

func isLocalAlloc(a *ssa.Alloc) bool {
	// an Alloc whose address never escapes: only loaded, stored to, or refined by
	// FieldAddr/IndexAddr chains that are themselves only loaded/stored.
	var ok func(v ssa.Value, depth int) bool
	ok = func(v ssa.Value, depth int) bool {
		refs := v.Referrers()
		if refs == nil {
			return false
		}
		for _, r := range *refs {
			switch x := r.(type) {
			case *ssa.UnOp:
				// load
			case *ssa.Store:
				if x.Val == v {
					return false
				}
			case *ssa.FieldAddr:
				if !ok(x, depth+1) {
					return false
				}
			case *ssa.IndexAddr:
				if x.X != v || !ok(x, depth+1) {
					return false
				}
			case *ssa.DebugRef:
			default:
				return false
			}
		}
		return true
	}
	return ok(a, 0)
}

func (fr *Frame) step(st *State, in ssa.Instruction, edgeCond map[[2]int]*Term) {
	fc := fr.fc
	fr.cur = in
	switch x := in.(type) {
	case *ssa.DebugRef:
		return
	case *ssa.Alloc:
		t := x.Type().(*types.Pointer).Elem()
		if isBigInt(t) {
			ref := fr.alloc(st)
			fc.store(st, fc.derefAddr(ref, t), IntLit64(0))
			fr.vals[x] = ref
			return
		}
		if isLocalAlloc(x) {
			fc.localN++
			key := fmt.Sprintf("L#%d.%s", fc.localN, sanitize(x.Comment))
			a := &Addr{kind: "local", class: key, csort: SortOf(t), typ: t}
			fc.heapSorts[key] = a.csort
			st.heap[key] = ZeroOf(t)
			fr.addrs[x] = a
			return
		}
		ref := fr.alloc(st)
		fr.vals[x] = ref
		a := fc.derefAddr(ref, t)
		fc.store(st, a, ZeroOf(t))
	case *ssa.BinOp:
		fr.vals[x] = fr.binop(st, x)
	case *ssa.UnOp:
		fr.vals[x] = fr.unop(st, x)
	case *ssa.Convert:
		fr.vals[x] = fr.convert(st, x)
	case *ssa.ChangeType:
		fr.vals[x] = fr.val(x.X)
	case *ssa.ChangeInterface:
		fr.vals[x] = fr.val(x.X)
	case *ssa.MakeInterface:
		fr.vals[x] = fr.makeIface(st, fr.val(x.X), x.X.Type())
	case *ssa.TypeAssert:
		fr.typeAssert(st, x)
	case *ssa.Extract:
		tup, ok := fr.tuples[x.Tuple]
		if !ok {
			panic(fmt.Sprintf("extract from unknown tuple %s", x.Tuple.Name()))
		}
		fr.vals[x] = tup[x.Index]
	case *ssa.FieldAddr:
		pt := x.X.Type().Underlying().(*types.Pointer).Elem()
		if base, ok := fr.addrs[x.X]; ok {
			dt := TR.structDT(pt)
			ft := pt.Underlying().(*types.Struct).Field(x.Field).Type()
			fr.addrs[x] = base.extend(pathStep{field: x.Field, dt: dt}, ft)
			return
		}
		if g, ok := x.X.(*ssa.Global); ok {
			base := fr.globalAddr(g)
			dt := TR.structDT(pt)
			ft := pt.Underlying().(*types.Struct).Field(x.Field).Type()
			fr.addrs[x] = base.extend(pathStep{field: x.Field, dt: dt}, ft)
			return
		}
		ref := fr.val(x.X)
		fr.nonNil(st, ref, x)
		fr.addrs[x] = fc.fieldAddr(ref, pt, x.Field)
	case *ssa.Field:
		dt := TR.structDT(x.X.Type())
		fr.vals[x] = SelField(dt, x.Field, fr.val(x.X))
	case *ssa.IndexAddr:
		fr.indexAddr(st, x)
	case *ssa.Index:
		xv := fr.val(x.X)
		i := toBV64(fr.val(x.Index), isSigned(x.Index.Type()))
		switch u := x.X.Type().Underlying().(type) {
		case *types.Array:
			fr.safe(st, "index", bvCmp("bvult", i, BVLit64(uint64(u.Len()), 64)), x, "array index out of range")
			fr.vals[x] = Select(xv, i)
		default:
			// string index
			fr.safe(st, "index", bvCmp("bvult", i, StrLen(xv)), x, "string index out of range")
			fr.vals[x] = Select(StrData(xv), i)
		}
	case *ssa.Slice:
		fr.sliceInstr(st, x)
	case *ssa.MakeSlice:
		el := x.Type().Underlying().(*types.Slice).Elem()
		ln := toBV64(fr.val(x.Len), isSigned(x.Len.Type()))
		cp := toBV64(fr.val(x.Cap), isSigned(x.Cap.Type()))
		fr.safe(st, "makeslice", And(bvCmp("bvsle", BVLit64(0, 64), ln), bvCmp("bvsle", ln, cp), bvCmp("bvule", cp, BVLit64(1<<40, 64))), x, "makeslice: len out of range")
		ref := fr.alloc(st)
		cls := elemClass(el)
		h := fc.get(st, cls, elemClassSort(el))
		st.heap[cls] = Store(h, ref, ConstArr(SArr(SBV64, SortOf(el)), ZeroOf(el)))
		fr.vals[x] = MkSlice(ref, BVLit64(0, 64), ln, cp)
		fr.fc.eng.noteAlloc(fr, st, x, ln)
	case *ssa.MakeMap:
		ref := fr.alloc(st)
		mt := x.Type().Underlying().(*types.Map)
		hk, hs, _, _ := mapClasses(mt)
		h := fc.get(st, hk, hs)
		_, ks := hs.ArrParts()
		st.heap[hk] = Store(h, ref, ConstArr(ks, False))
		fr.vals[x] = ref
	case *ssa.MakeChan:
		fr.vals[x] = fr.alloc(st)
	case *ssa.MakeClosure:
		ref := fr.alloc(st)
		fr.vals[x] = ref
		var bs []*Term
		for _, b := range x.Bindings {
			if a, ok := fr.addrs[b]; ok && a.kind == "local" {
				// captured local by reference: keep the address
				bs = append(bs, nil)
				fc.eng.closureAddrs[closureKey{ref, len(bs) - 1}] = a
				continue
			}
			bs = append(bs, fr.val(b))
		}
		fc.eng.closures[ref] = &closureInfo{fn: x.Fn.(*ssa.Function), binds: bs}
	case *ssa.Phi:
		return
	case *ssa.Store:
		a := fr.addrOf(x.Addr)
		if _, tracked := fr.addrs[x.Addr]; a.base != nil && !tracked && a.kind != "local" && a.kind != "global" {
			if _, isAlloc := x.Addr.(*ssa.Alloc); !isAlloc {
				fr.nonNil(st, a.base, x)
			}
		}
		fc.store(st, a, fr.val(x.Val))
	case *ssa.Lookup:
		fr.lookup(st, x)
	case *ssa.MapUpdate:
		m := fr.val(x.Map)
		fr.safe(st, "nilmap", Not(Eq(m, IntLit64(0))), x, "assignment to entry in nil map")
		mt := x.Map.Type().Underlying().(*types.Map)
		hk, hs, vk, vs := mapClasses(mt)
		k := fr.mapKey(st, fr.val(x.Key), mt.Key())
		hh := fc.get(st, hk, hs)
		vh := fc.get(st, vk, vs)
		st.heap[hk] = Store(hh, m, Store(Select(hh, m), k, True))
		st.heap[vk] = Store(vh, m, Store(Select(vh, m), k, fr.val(x.Value)))
	case *ssa.Call:
		res := fr.call(st, x.Common(), x, x)
		fr.bindResults(x, res)
	case *ssa.Defer:
		fr.defers = append(fr.defers, deferred{guard: st.pc, call: x.Common(), instr: x})
	case *ssa.RunDefers:
		for i := len(fr.defers) - 1; i >= 0; i-- {
			d := fr.defers[i]
			if d.guard == False {
				continue
			}
			// run under the guard, then merge with the state where the defer was not registered
			s1 := st.clone()
			s1.pc = And(st.pc, d.guard)
			fr.call(s1, d.call, d.instr, nil)
			s2 := st.clone()
			s2.pc = And(st.pc, Not(d.guard))
			m := fc.merge([]*State{s1, s2})
			m.pc = st.pc
			*st = *m
		}
	case *ssa.Go:
		// the spawned goroutine is outside the model; its arguments escape
		fc.note("go statement ignored (concurrency not modelled)" + fr.posOf(x))
	case *ssa.Send:
		fc.note("channel send: only counted ($sent), the receiver is outside the model" + fr.posOf(x))
		fr.bumpChan(st, "$sent", True)
	case *ssa.Select:
		fr.selectInstr(st, x)
	case *ssa.Range:
		fr.rangeInit(st, x)
	case *ssa.Next:
		fr.rangeNext(st, x)
	case *ssa.Jump:
		return
	case *ssa.If:
		c := fr.val(x.Cond)
		b := x.Block()
		edgeCond[[2]int{b.Index, b.Succs[0].Index}] = c
		edgeCond[[2]int{b.Index, b.Succs[1].Index}] = Not(c)
		if b.Succs[0] == b.Succs[1] {
			edgeCond[[2]int{b.Index, b.Succs[0].Index}] = True
		}
	case *ssa.Return:
		var rs []*Term
		for _, r := range x.Results {
			rs = append(rs, fr.val(r))
		}
		fr.rets = append(fr.rets, retEdge{st: st.clone(), results: rs})
	case *ssa.Panic:
		fr.panicInstr(st, x)
		st.pc = False
	case *ssa.SliceToArrayPointer:
		panic(unsupported("slice to array pointer"))
	case *ssa.MultiConvert:
		panic(unsupported("multiconvert"))
	default:
		panic(unsupported(fmt.Sprintf("instruction %T", in)))
	}
}

func (fr *Frame) panicInstr(st *State, x *ssa.Panic) {
	fc := fr.fc
	c := fc.eng.topContract
	if fr.isTop && c != nil && c.panics != nil {
		env := fr.newEnv(fc.entry, fc.entry)
		allowed := env.boolExpr(c.panics.expr)
		ids := fr.safeIDs()
		if ids == nil {
			ids = c.panics.ids
		}
		if ids != nil {
			fc.oblige(fc.site(fr.oname()+"#safe.panic"), "safe", ids, st.pc, allowed, c.panics, "explicit panic only under the declared condition"+fr.posOf(x))
		}
		return
	}
	ids := fr.safeIDs()
	if ids != nil {
		fc.oblige(fc.site(fr.oname()+"#safe.panic"), "safe", ids, st.pc, False, nil, "explicit panic is unreachable"+fr.posOf(x))
	}
}

func (fr *Frame) bindResults(x *ssa.Call, res []*Term) {
	sig := x.Common().Signature()
	n := sig.Results().Len()
	switch {
	case n == 0:
	case n == 1:
		fr.vals[x] = res[0]
	default:
		fr.tuples[x] = res
	}
}

func (fr *Frame) makeIface(st *State, v *Term, t types.Type) *Term {
	fc := fr.fc
	if _, ok := t.Underlying().(*types.Interface); ok {
		return v
	}
	tag := IntLit64(int64(TR.TypeID(t)))
	if v.sort == SRef {
		if _, isPtr := t.Underlying().(*types.Pointer); isPtr {
			// typed nil pointer in an interface is non-nil interface; keep tag
		}
		return MkIface(tag, v)
	}
	// box the value
	ref := fr.alloc(st)
	cls := "Box:" + typeKey(t)
	s := SArr(SRef, v.sort)
	h := fc.get(st, cls, s)
	st.heap[cls] = Store(h, ref, v)
	return MkIface(tag, ref)
}

func (fr *Frame) unbox(st *State, iv *Term, t types.Type) *Term {
	s := SortOf(t)
	if s == SRef {
		return IfVal(iv)
	}
	cls := "Box:" + typeKey(t)
	h := fr.fc.get(st, cls, SArr(SRef, s))
	v := Select(h, IfVal(iv))
	fr.typeInv(st, v, t)
	return v
}

func (fr *Frame) typeAssert(st *State, x *ssa.TypeAssert) {
	fc := fr.fc
	iv := fr.val(x.X)
	var ok, v *Term
	if _, isI := x.AssertedType.Underlying().(*types.Interface); isI {
		ok = fc.eng.implementsTerm(fc, IfTag(iv), x.AssertedType)
		v = iv
	} else {
		ok = Eq(IfTag(iv), IntLit64(int64(TR.TypeID(x.AssertedType))))
		v = fr.unbox(st, iv, x.AssertedType)
	}
	if x.CommaOk {
		zero := ZeroOf(x.AssertedType)
		fr.tuples[x] = []*Term{Ite(ok, v, zero), ok}
		return
	}
	fr.safe(st, "assert", ok, x, "type assertion to "+typeName(x.AssertedType))
	fr.vals[x] = v
}

func (fr *Frame) indexAddr(st *State, x *ssa.IndexAddr) {
	fc := fr.fc
	i := toBV64(fr.val(x.Index), isSigned(x.Index.Type()))
	switch u := x.X.Type().Underlying().(type) {
	case *types.Slice:
		s := fr.val(x.X)
		fr.safe(st, "index", bvCmp("bvult", i, SlLen(s)), x, "slice index out of range")
		fr.addrs[x] = &Addr{kind: "elem", class: elemClass(u.Elem()), csort: elemClassSort(u.Elem()), base: SlArr(s), idx: bvBin("bvadd", SlOff(s), i), typ: u.Elem()}
	case *types.Pointer:
		at := u.Elem().Underlying().(*types.Array)
		fr.safe(st, "index", bvCmp("bvult", i, BVLit64(uint64(at.Len()), 64)), x, "array index out of range")
		if base, ok := fr.addrs[x.X]; ok {
			fr.addrs[x] = base.extend(pathStep{index: i, esort: SortOf(at.Elem())}, at.Elem())
			return
		}
		if g, ok := x.X.(*ssa.Global); ok {
			fr.addrs[x] = fr.globalAddr(g).extend(pathStep{index: i, esort: SortOf(at.Elem())}, at.Elem())
			return
		}
		ref := fr.val(x.X)
		fr.nonNil(st, ref, x)
		fr.addrs[x] = &Addr{kind: "elem", class: elemClass(at.Elem()), csort: elemClassSort(at.Elem()), base: ref, idx: i, typ: at.Elem()}
	default:
		panic(unsupported("IndexAddr on " + x.X.Type().String()))
	}
	_ = fc
}

func (fr *Frame) sliceInstr(st *State, x *ssa.Slice) {
	fc := fr.fc
	z := BVLit64(0, 64)
	get := func(v ssa.Value, def *Term) *Term {
		if v == nil {
			return def
		}
		return toBV64(fr.val(v), isSigned(v.Type()))
	}
	switch u := x.X.Type().Underlying().(type) {
	case *types.Slice:
		s := fr.val(x.X)
		lo := get(x.Low, z)
		hi := get(x.High, SlLen(s))
		mx := get(x.Max, SlCap(s))
		fr.safe(st, "slice", And(bvCmp("bvule", lo, hi), bvCmp("bvule", hi, mx), bvCmp("bvule", mx, SlCap(s))), x, "slice bounds out of range")
		fr.vals[x] = MkSlice(SlArr(s), bvBin("bvadd", SlOff(s), lo), bvBin("bvsub", hi, lo), bvBin("bvsub", mx, lo))
	case *types.Basic: // string
		s := fr.val(x.X)
		lo := get(x.Low, z)
		hi := get(x.High, StrLen(s))
		fr.safe(st, "slice", And(bvCmp("bvule", lo, hi), bvCmp("bvule", hi, StrLen(s))), x, "string slice bounds out of range")
		if x.Low == nil && x.High == nil {
			fr.vals[x] = s
			return
		}
		r := fc.fresh("substr", SStr)
		fc.assume(True, Eq(StrLen(r), bvBin("bvsub", hi, lo)))
		k := BVar("k", SBV64)
		fc.assume(True, Forall([]*Term{k}, Implies(bvCmp("bvult", k, StrLen(r)), Eq(Select(StrData(r), k), Select(StrData(s), bvBin("bvadd", lo, k)))), []*Term{Select(StrData(r), k)}))
		fr.vals[x] = r
	case *types.Pointer:
		at := u.Elem().Underlying().(*types.Array)
		n := BVLit64(uint64(at.Len()), 64)
		lo := get(x.Low, z)
		hi := get(x.High, n)
		mx := get(x.Max, n)
		fr.safe(st, "slice", And(bvCmp("bvule", lo, hi), bvCmp("bvule", hi, mx), bvCmp("bvule", mx, n)), x, "slice bounds out of range")
		var ref *Term
		if a, ok := fr.addrs[x.X]; ok {
			// slicing an array that lives in a local or inside a struct: materialise the
			// array as a heap row (the storage moves; later accesses go through the row)
			if (a.kind != "local" || len(a.path) != 0) && sliceWrittenDirectly(x) {
				panic(unsupported("writing through a slice of an array stored inside " + a.kind + " " + a.class))
			}
			ref = fr.materialize(st, x.X, a, at)
		} else if g, ok := x.X.(*ssa.Global); ok {
			ref = fr.materialize(st, x.X, fr.globalAddr(g), at)
		} else {
			ref = fr.val(x.X)
			fr.nonNil(st, ref, x)
		}
		fr.vals[x] = MkSlice(ref, lo, bvBin("bvsub", hi, lo), bvBin("bvsub", mx, lo))
	default:
		panic(unsupported("slice of " + x.X.Type().String()))
	}
}

// materialize moves an array stored by value (local variable or struct field) into a fresh heap
// row so that it can be aliased by a slice. Only allowed for non-escaping locals: the local's
// address descriptor is redirected to the row.
func (fr *Frame) materialize(st *State, v ssa.Value, a *Addr, at *types.Array) *Term {
	fc := fr.fc
	if a.kind != "local" || len(a.path) != 0 {
		// an array inside a heap struct (or nested in a local): the slice is modelled as a view
		// of a copy, which is exact as long as nothing is written through it. Direct writes
		// (index stores, copy/append destinations) are refused; passing it to a callee that
		// writes through it is listed as an assumption.
		if sl, ok := v.Referrers(), true; ok && sl != nil {
			_ = sl
		}
		return fr.viewCopy(st, a, at)
	}
	cur := fc.load(st, a)
	ref := fr.alloc(st)
	cls := elemClass(at.Elem())
	h := fc.get(st, cls, elemClassSort(at.Elem()))
	st.heap[cls] = Store(h, ref, cur)
	na := &Addr{kind: "cell", class: cls, csort: elemClassSort(at.Elem()), base: ref, typ: a.typ}
	fr.addrs[v] = na
	// IndexAddr results computed earlier from the old descriptor are stale only if they are
	// used after this point; go/ssa recomputes IndexAddr per access, so redirecting suffices.
	return ref
}

func mapClasses(mt *types.Map) (hk string, hs Sort, vk string, vs Sort) {
	ks := mapKeySort(mt.Key())
	key := typeKey(mt.Key()) + "=>" + typeKey(mt.Elem())
	noteClass("MV:"+key, mt.Elem())
	hs, vs = SArr(SRef, SArr(ks, SBool)), SArr(SRef, SArr(ks, SortOf(mt.Elem())))
	regSort("MH:"+key, func() Sort { return hs })
	regSort("MV:"+key, func() Sort { return vs })
	return "MH:" + key, hs, "MV:" + key, vs
}

func mapKeySort(t types.Type) Sort { return SortOf(t) }

func (fr *Frame) mapKey(st *State, k *Term, t types.Type) *Term { return k }

func (fr *Frame) lookup(st *State, x *ssa.Lookup) {
	fc := fr.fc
	if mt, ok := x.X.Type().Underlying().(*types.Map); ok {
		m := fr.val(x.X)
		hk, hs, vk, vs := mapClasses(mt)
		k := fr.mapKey(st, fr.val(x.Index), mt.Key())
		has := Select(Select(fc.get(st, hk, hs), m), k)
		has = And(Not(Eq(m, IntLit64(0))), has)
		v := Select(Select(fc.get(st, vk, vs), m), k)
		v = Ite(has, v, ZeroOf(mt.Elem()))
		fr.typeInv(st, v, mt.Elem())
		if x.CommaOk {
			fr.tuples[x] = []*Term{v, has}
		} else {
			fr.vals[x] = v
		}
		return
	}
	// string index
	s := fr.val(x.X)
	i := toBV64(fr.val(x.Index), isSigned(x.Index.Type()))
	fr.safe(st, "index", bvCmp("bvult", i, StrLen(s)), x, "string index out of range")
	fr.vals[x] = Select(StrData(s), i)
}

func (fr *Frame) rangeInit(st *State, x *ssa.Range) {
	fc := fr.fc
	if fr.ranges == nil {
		fr.ranges = map[ssa.Value]*rangeState{}
	}
	if mt, ok := x.X.Type().Underlying().(*types.Map); ok {
		fc.localN++
		key := fmt.Sprintf("L#%d.seen", fc.localN)
		ks := mapKeySort(mt.Key())
		fc.heapSorts[key] = SArr(ks, SBool)
		st.heap[key] = ConstArr(SArr(ks, SBool), False)
		fr.ranges[x] = &rangeState{mapRef: fr.val(x.X), seen: key, kt: mt.Key(), vt: mt.Elem()}
		fr.vals[x] = IntLit64(0)
		return
	}
	panic(unsupported("range over string"))
}

func (fr *Frame) rangeNext(st *State, x *ssa.Next) {
	fc := fr.fc
	rs := fr.ranges[x.Iter]
	if rs == nil {
		panic(unsupported("next on unknown iterator"))
	}
	mt := x.Iter.(*ssa.Range).X.Type().Underlying().(*types.Map)
	hk, hs, vk, vs := mapClasses(mt)
	ks := mapKeySort(mt.Key())
	seenS := SArr(ks, SBool)
	seen := fc.get(st, rs.seen, seenS)
	has := Select(fc.get(st, hk, hs), rs.mapRef)
	ok := fc.fresh("range.ok", SBool)
	k := fc.fresh("range.key", ks)
	// ok => key present and unvisited; !ok => every present key was visited
	fc.assume(st.pc, Implies(ok, And(Select(has, k), Not(Select(seen, k)), Not(Eq(rs.mapRef, IntLit64(0))))))
	q := BVar("q", ks)
	fc.assume(st.pc, Implies(Not(ok), Or(Eq(rs.mapRef, IntLit64(0)), Forall([]*Term{q}, Implies(Select(has, q), Select(seen, q)), []*Term{Select(has, q)}))))
	st.heap[rs.seen] = Ite(ok, Store(seen, k, True), seen)
	v := Select(Select(fc.get(st, vk, vs), rs.mapRef), k)
	fr.typeInv(st, v, mt.Elem())
	fr.typeInv(st, k, mt.Key())
	fr.tuples[x] = []*Term{ok, k, v}
}

// viewCopy: a fresh heap row holding a copy of the array stored at address a.
func (fr *Frame) viewCopy(st *State, a *Addr, at *types.Array) *Term {
	fc := fr.fc
	cur := fc.load(st, a)
	ref := fr.alloc(st)
	cls := elemClass(at.Elem())
	h := fc.get(st, cls, elemClassSort(at.Elem()))
	st.heap[cls] = Store(h, ref, cur)
	fc.note("slice of an array stored inside " + a.class + " is modelled as a read-only copy")
	return ref
}

// sliceWrittenDirectly: the slice value is the destination of an index store, copy or append in
// the same function (then the copy model would lose the write).
func sliceWrittenDirectly(x *ssa.Slice) bool {
	refs := x.Referrers()
	if refs == nil {
		return false
	}
	for _, r := range *refs {
		switch u := r.(type) {
		case *ssa.IndexAddr:
			if u.X == x {
				if rr := u.Referrers(); rr != nil {
					for _, w := range *rr {
						if s, ok := w.(*ssa.Store); ok && s.Addr == u {
							return true
						}
					}
				}
			}
		case *ssa.Call:
			if b, ok := u.Call.Value.(*ssa.Builtin); ok && (b.Name() == "copy" || b.Name() == "append") && len(u.Call.Args) > 0 && u.Call.Args[0] == x {
				return true
			}
		}
	}
	return false
}

// bumpChan increments a channel-operation ghost counter under a condition.
func (fr *Frame) bumpChan(st *State, name string, cond *Term) {
	fc := fr.fc
	k := "ghost:" + name
	fc.heapSorts[k] = SBV64
	cur := fc.get(st, k, SBV64)
	st.heap[k] = Ite(cond, bvBin("bvadd", cur, BVLit64(1, 64)), cur)
}

// selectInstr: a select statement picks one of its cases (any of them, or none when it has a
// default and is non-blocking): the chosen index is unconstrained within range, received values
// are unconstrained (they come from other goroutines), sends and receives are counted.
func (fr *Frame) selectInstr(st *State, x *ssa.Select) {
	fc := fr.fc
	fc.note("select: an arbitrary case is taken; received values are unconstrained" + fr.posOf(x))
	n := len(x.States)
	idx := fc.fresh("select.index", SBV64)
	lo := bvCmp("bvsle", BVLit64(0, 64), idx)
	if !x.Blocking {
		lo = bvCmp("bvsle", BVLit64(^uint64(0), 64), idx) // -1: default case
	}
	fc.assume(st.pc, And(lo, bvCmp("bvslt", idx, BVLit64(uint64(n), 64))))
	out := []*Term{idx, fc.fresh("select.ok", SBool)}
	for i, s := range x.States {
		chosen := Eq(idx, BVLit64(uint64(i), 64))
		if s.Dir == types.RecvOnly {
			elem := s.Chan.Type().Underlying().(*types.Chan).Elem()
			v := fc.fresh("select.recv", SortOf(elem))
			fr.typeInv(st, v, elem)
			out = append(out, v)
			fr.bumpChan(st, "$recv", chosen)
		} else {
			fr.bumpChan(st, "$sent", chosen)
		}
	}
	fr.tuples[x] = out
}
