package main

import (
	"fmt"
	"golang.org/x/tools/go/packages"
	"golang.org/x/tools/go/ssa"
	"golang.org/x/tools/go/ssa/ssautil"
)

func main() {
	cfg := &packages.Config{Mode: packages.LoadAllSyntax, Dir: "/repo", BuildFlags: []string{"-tags=verif"}}
	pkgs, err := packages.Load(cfg, "./rlp")
	if err != nil { panic(err) }
	prog, spkgs := ssautil.AllPackages(pkgs, ssa.GlobalDebug)
	prog.Build()
	fmt.Println(len(spkgs), spkgs[0].Func("readSize") != nil)
}
