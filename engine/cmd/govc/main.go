package main

import (
	"encoding/json"
	"flag"
	"fmt"
	"os"

	"golang.org/x/tools/go/ssa"
	"path/filepath"
	"runtime"
	"sort"
	"strconv"
	"strings"
	"time"
)

type PropCfg struct {
	Packages []string `json:"packages"`
	Note     string   `json:"note"`
}

type KnownFinding struct {
	Property   string `json:"property"`
	Obligation string `json:"obligation"`
	What       string `json:"what"`
}

type KnownFile struct {
	Findings []KnownFinding `json:"findings"`
	Fixed    []string       `json:"fixed"`
}

type Claimed struct {
	Property    string            `json:"property"`
	Obligations map[string]string `json:"obligations"` // name -> clause hash ("" for safe/frame)
	Excluded    []string          `json:"excluded"`    // generated on the pinned tree but not discharged there (never counted)
}

func hasID(ids []string, id string) bool {
	for _, x := range ids {
		if x == id {
			return true
		}
	}
	return false
}

func contractMentions(c *Contract, id string) bool {
	for _, cl := range c.ensures {
		if hasID(cl.ids, id) {
			return true
		}
	}
	if hasID(c.nopanic, id) {
		return true
	}
	for _, pd := range c.protects {
		if hasID(pd.ids, id) {
			return true
		}
	}
	for _, cl := range c.allocs {
		if hasID(cl.ids, id) {
			return true
		}
	}
	for _, cls := range c.loops {
		for _, cl := range cls {
			if hasID(cl.ids, id) {
				return true
			}
		}
	}
	return false
}

func main() {
	if len(os.Args) < 2 {
		fmt.Fprintln(os.Stderr, "usage: govc check|claim|ssa ...")
		os.Exit(2)
	}
	cmd := os.Args[1]
	fs := flag.NewFlagSet(cmd, flag.ExitOnError)
	id := fs.String("id", "", "property id")
	repo := fs.String("repo", "/repo", "repository root")
	verif := fs.String("verif", "/verif", "verif root")
	tier := fs.String("tier", os.Getenv("VERIF_TIER"), "quick|thorough")
	keep := fs.Bool("keep", false, "keep all SMT files")
	only := fs.String("only", "", "only functions whose name contains this substring")
	verbose := fs.Bool("v", false, "verbose")
	pkgPat := fs.String("pkg", "", "package pattern (ssa command)")
	fnName := fs.String("func", "", "function (ssa command)")
	fs.Parse(os.Args[2:])
	if *tier == "" {
		*tier = "quick"
	}
	switch cmd {
	case "check", "claim":
		os.Exit(runCheck(cmd, *id, *repo, *verif, *tier, *keep, *only, *verbose))
	case "ssa":
		dumpSSA(*repo, *pkgPat, *fnName)
	case "why":
		// why does the inferred write set of -func contain a class matching -only?
		whyFrame(*repo, *verif, *pkgPat, *fnName, *only)
	default:
		fmt.Fprintln(os.Stderr, "unknown command", cmd)
		os.Exit(2)
	}
}

func whyFrame(repo, verif, pat, fn, class string) {
	eng, err := NewEngine(repo, []string{pat})
	if err != nil {
		fmt.Fprintln(os.Stderr, err)
		os.Exit(2)
	}
	eng.verif = verif
	if specs, err := LoadSpecs(filepath.Join(verif, "specs")); err == nil {
		eng.specs = specs
	}
	eng.frames.followGo = os.Getenv("GOVC_FOLLOWGO") != ""
	for f := range eng.allFuncs {
		if !(eng.inModule(f) && (contractKey(f) == fn || f.String() == fn)) {
			continue
		}
		ws := eng.frames.of(f, nil)
		var ks []string
		for k := range ws {
			ks = append(ks, k)
		}
		sort.Strings(ks)
		fmt.Println(f.String(), "writes", len(ks), "classes")
		for _, k := range ks {
			fmt.Println("  ", k)
		}
		if class == "" {
			continue
		}
		prev := map[*ssa.Function]*ssa.Function{f: nil}
		queue := []*ssa.Function{f}
		for len(queue) > 0 {
			g := queue[0]
			queue = queue[1:]
			hit := ""
			for k := range eng.frames.direct[g] {
				if strings.Contains(k, class) {
					hit = k
				}
			}
			if hit != "" {
				fmt.Println("path to a direct write of", hit)
				var path []string
				for h := g; h != nil; h = prev[h] {
					path = append(path, h.String())
				}
				for i := len(path) - 1; i >= 0; i-- {
					fmt.Println("   ", path[i])
				}
				break
			}
			for _, h := range eng.frames.callees[g] {
				if _, ok := prev[h]; !ok {
					prev[h] = g
					queue = append(queue, h)
				}
			}
		}
	}
}

func dumpSSA(repo, pat, fn string) {
	eng, err := NewEngine(repo, []string{pat})
	if err != nil {
		fmt.Fprintln(os.Stderr, err)
		os.Exit(2)
	}
	for f := range eng.allFuncs {
		if eng.inModule(f) && (contractKey(f) == fn || f.String() == fn) {
			f.WriteTo(os.Stdout)
			for _, li := range computeLoops(f) {
				fmt.Printf("loop %d: header block %d (%s)\n", li.ordinal, li.header.Index, li.header.Comment)
			}
		}
	}
}

func runCheck(cmd, id, repo, verif, tier string, keep bool, only string, verbose bool) int {
	t0 := time.Now()
	seed, _ := strconv.Atoi(os.Getenv("VERIF_SEED"))
	var props map[string]PropCfg
	b, err := os.ReadFile(filepath.Join(verif, "props.json"))
	if err != nil {
		fmt.Fprintln(os.Stderr, err)
		return 2
	}
	if err := json.Unmarshal(b, &props); err != nil {
		fmt.Fprintln(os.Stderr, "props.json:", err)
		return 2
	}
	pc, ok := props[id]
	if !ok {
		fmt.Fprintln(os.Stderr, "unknown property", id)
		return 2
	}
	eng, err := NewEngine(repo, pc.Packages)
	if err != nil {
		fmt.Fprintln(os.Stderr, "load:", err)
		return 2
	}
	specs, err := LoadSpecs(filepath.Join(verif, "specs"))
	if err != nil {
		fmt.Fprintln(os.Stderr, "specs:", err)
		return 2
	}
	eng.specs = specs
	eng.verif = verif
	// trusted contracts of external (standard library / dependency) functions
	libs, _ := filepath.Glob(filepath.Join(verif, "lib", "*.contracts"))
	sort.Strings(libs)
	for _, lf := range libs {
		if err := eng.contracts.LoadFile("", lf); err != nil {
			fmt.Fprintln(os.Stderr, "lib contracts:", err)
			return 2
		}
	}
	effectReports, err := eng.expandProtects(id)
	eng.effectReports = effectReports
	if err != nil {
		fmt.Println("UNDECIDED: effect clauses:", err)
		return 2
	}
	tLoad := time.Since(t0).Seconds()

	outDir := filepath.Join(verif, "out", id)
	os.RemoveAll(outDir)
	os.MkdirAll(outDir, 0o755)
	cfg := &SolverCfg{outDir: outDir, timeout: 25 * time.Second, first: 4 * time.Second, workers: runtime.NumCPU() / 2, seed: seed, keepSMT: keep}
	if tier == "thorough" {
		cfg.timeout = 60 * time.Second
		cfg.first = 5 * time.Second
		cfg.confirm = true
	}
	if cfg.workers < 2 {
		cfg.workers = 2
	}

	// functions under contract for this property
	var results []*FuncResult
	var cts []*Contract
	for _, c := range eng.contracts.list {
		if c.isType || c.trusted {
			continue
		}
		if contractMentions(c, id) && (only == "" || strings.Contains(c.key, only)) {
			cts = append(cts, c)
		}
	}
	sort.Slice(cts, func(i, j int) bool { return cts[i].pkgPath+cts[i].key < cts[j].pkgPath+cts[j].key })
	var structural []string
	for _, c := range cts {
		f := eng.findFunction(c)
		if f == nil {
			structural = append(structural, fmt.Sprintf("%s.%s: function named by a contract does not exist", shortPkg(c.pkgPath), c.key))
			continue
		}
		r := eng.verifyFunction(f, c)
		if r.err != "" {
			structural = append(structural, fmt.Sprintf("%s: %s", r.name, r.err))
		}
		results = append(results, r)
	}
	// lemmas
	lemmaRes := eng.lemmaObligations(id)
	if lemmaRes != nil {
		results = append(results, lemmaRes)
	}
	tGen := time.Since(t0).Seconds() - tLoad

	// clauses labelled @slow.* need solver time close to the quick budget: they are decided in the
	// thorough tier only (and never counted in quick runs)
	filter := func(o *Obligation) bool {
		if tier != "thorough" && o.clause != nil && strings.HasPrefix(o.clause.label, "slow") {
			return false
		}
		return hasID(o.ids, id)
	}
	cfg.noRetry = map[string]bool{}
	if kb, err := os.ReadFile(filepath.Join(verif, "known_findings.json")); err == nil {
		var kf KnownFile
		if json.Unmarshal(kb, &kf) == nil {
			for _, k := range kf.Findings {
				cfg.noRetry[k.Obligation] = true
			}
		}
	}
	eng.solveAll(results, cfg, filter)

	// collect
	var all []*Obligation
	for _, r := range results {
		if r.fc == nil || r.err != "" {
			continue
		}
		for _, o := range r.fc.obls {
			if filter(o) {
				all = append(all, o)
			}
		}
	}
	sort.Slice(all, func(i, j int) bool { return all[i].name < all[j].name })

	if cmd == "claim" {
		cl := Claimed{Property: id, Obligations: map[string]string{}}
		for _, o := range all {
			if o.status == "discharged" {
				h := ""
				if o.clause != nil {
					h = o.clause.Hash()
				}
				cl.Obligations[o.name] = h
			} else {
				cl.Excluded = append(cl.Excluded, o.name)
				fmt.Printf("not claimed (%s): %s\n", o.status, o.name)
			}
		}
		os.MkdirAll(filepath.Join(verif, "claimed"), 0o755)
		jb, _ := json.MarshalIndent(cl, "", " ")
		os.WriteFile(filepath.Join(verif, "claimed", id+".json"), jb, 0o644)
		fmt.Printf("claimed %d obligations for %s\n", len(cl.Obligations), id)
		for _, s := range structural {
			fmt.Println("STRUCTURAL:", s)
		}
		return 0
	}

	// known findings
	var known KnownFile
	if kb, err := os.ReadFile(filepath.Join(verif, "known_findings.json")); err == nil {
		json.Unmarshal(kb, &known)
	}
	isKnown := func(name string) *KnownFinding {
		for i := range known.Findings {
			k := &known.Findings[i]
			if k.Property == id && k.Obligation == name {
				return k
			}
		}
		return nil
	}
	// claimed set
	var claimed Claimed
	haveClaim := false
	if cb, err := os.ReadFile(filepath.Join(verif, "claimed", id+".json")); err == nil {
		if json.Unmarshal(cb, &claimed) == nil {
			haveClaim = true
		}
	}

	replayDir := filepath.Join(verif, "replays", id)
	os.RemoveAll(replayDir)
	os.MkdirAll(replayDir, 0o755)
	exit := 0
	nDis, nObl := 0, 0
	var violations []string
	var inconclusive []string
	var knownSeen []string
	solverCount := map[string]int{}
	var solverSecs float64
	present := map[string]*Obligation{}
	var samples []map[string]interface{}
	var slow []*Obligation
	for _, o := range all {
		present[o.name] = o
		solverSecs += o.secs
		kf := isKnown(o.name)
		// every generated obligation counts (including ones a code change introduces), except
		// those explicitly excluded when the claim was made on the pinned tree
		counted := true
		for _, ex := range claimed.Excluded {
			if ex == o.name {
				counted = false
			}
		}
		if kf != nil {
			if o.status == "failed" || o.status == "undecided" {
				// (with quantified axioms in scope the solvers answer unknown rather than sat)
				fmt.Printf("KNOWN-FINDING: property=%s %s %s\n", id, o.name, kf.What)
				knownSeen = append(knownSeen, o.name)
			} else if o.status == "discharged" {
				fmt.Printf("note: known finding %s no longer fails (%s)\n", o.name, o.status)
			}
			continue
		}
		if !counted {
			// generated but never claimed (unstable or not yet discharged): reported, not decisive
			if verbose {
				fmt.Printf("unclaimed %s: %s\n", o.status, o.name)
			}
			continue
		}
		if o.kind == "vacuity" && o.status == "undecided" {
			// satisfiability of quantified assumption sets is often not decided by the solvers; a
			// vacuity check only fails when the assumptions are refuted (unsat)
			inconclusive = append(inconclusive, o.name)
			continue
		}
		nObl++
		switch o.status {
		case "discharged":
			nDis++
			solverCount[o.solver]++
		case "failed":
			path := writeReplay(eng, replayDir, id, o)
			suffix := ""
			if !replayOK(o) {
				suffix = " no-failing-input-found"
			}
			line := fmt.Sprintf("VIOLATION property=%s replay=%s obligation=%s%s", id, path, o.name, suffix)
			violations = append(violations, line)
			exit = 1
		default:
			path := writeReplay(eng, replayDir, id, o)
			line := fmt.Sprintf("VIOLATION property=%s replay=%s obligation=%s (undischarged: %s) no-failing-input-found", id, path, o.name, o.status)
			violations = append(violations, line)
			exit = 1
		}
		slow = append(slow, o)
	}
	sort.Slice(slow, func(i, j int) bool { return slow[i].secs > slow[j].secs })
	for i, o := range all {
		if i%maxInt(1, len(all)/8) == 0 && len(samples) < 10 {
			samples = append(samples, map[string]interface{}{"obligation": o.name, "kind": o.kind, "what": o.descr, "status": o.status, "solver": o.solver, "secs": round3(o.secs)})
		}
	}
	// claimed obligations that were not generated at all
	var missing []string
	if haveClaim {
		for name := range claimed.Obligations {
			if present[name] == nil {
				// site-numbered obligations (safety checks, call-site preconditions, frames)
				// come and go with harmless edits; clause-keyed ones must stay
				if strings.Contains(name, "#safe.") || strings.Contains(name, "#pre@") || strings.Contains(name, "#frame.") || strings.Contains(name, "#alloc.") || strings.Contains(name, "#post.protects.") {
					// (protects.*: one obligation per method that has the effect; a method that lost it is fine)
					continue
				}
				missing = append(missing, name)
			}
		}
		sort.Strings(missing)
	}
	for _, v := range violations {
		fmt.Println(v)
	}
	if len(structural) > 0 || len(missing) > 0 {
		for _, s := range structural {
			fmt.Println("UNDECIDED:", s)
		}
		for _, m := range missing {
			fmt.Println("UNDECIDED: claimed obligation was not generated:", m)
		}
		if exit == 0 {
			exit = 2
		}
	}
	if nObl == 0 && exit == 0 {
		fmt.Println("UNDECIDED: no obligations generated for", id)
		exit = 2
	}
	writeEvidence(eng, verif, id, tier, seed, results, all, nObl, nDis, len(violations), solverCount, solverSecs, slow, samples, structural, missing, time.Since(t0).Seconds(), tLoad, tGen, haveClaim, append(inconclusive, prefixAll("known-finding:", knownSeen)...))
	fmt.Printf("%s: %d obligations, %d discharged, %d violations, load %.1fs gen %.1fs total %.1fs\n", id, nObl, nDis, len(violations), tLoad, tGen, time.Since(t0).Seconds())
	return exit
}

func hasKey(m map[string]string, k string) bool { _, ok := m[k]; return ok }

func prefixAll(p string, xs []string) []string {
	var out []string
	for _, x := range xs {
		out = append(out, p+x)
	}
	return out
}

func maxInt(a, b int) int {
	if a > b {
		return a
	}
	return b
}

func round3(f float64) float64 { return float64(int(f*1000)) / 1000 }

func replayOK(o *Obligation) bool { return o.replayed }

func writeReplay(eng *Engine, dir, id string, o *Obligation) string {
	path := filepath.Join(dir, sanitizeFile(o.name)+".txt")
	var sb strings.Builder
	fmt.Fprintf(&sb, "property: %s\nobligation: %s\nkind: %s\nfunction: %s\nwhat: %s\nstatus: %s\nsolver: %s\n", id, o.name, o.kind, o.fn, o.descr, o.status, o.solver)
	if o.clause != nil {
		fmt.Fprintf(&sb, "clause: %s %s\n", o.clause.kind, o.clause.text)
	}
	if len(o.model) > 0 {
		sb.WriteString("counterexample (function parameters):\n")
		var ks []string
		for k := range o.model {
			ks = append(ks, k)
		}
		sort.Strings(ks)
		for _, k := range ks {
			fmt.Fprintf(&sb, "  %s = %s\n", k, o.model[k])
		}
	}
	outp := o.output
	if len(outp) > 6000 {
		outp = outp[:6000] + "\n... (truncated; rerun the solver on the smt file for the full model)\n"
	}
	fmt.Fprintf(&sb, "smt file: %s\nsolver output:\n%s\n", o.smt, outp)
	if r := tryReplay(eng, dir, id, o); r != "" {
		sb.WriteString(r)
	}
	os.WriteFile(path, []byte(sb.String()), 0o644)
	return path
}

func writeEvidence(eng *Engine, verif, id, tier string, seed int, results []*FuncResult, all []*Obligation, nObl, nDis, nViol int,
	solverCount map[string]int, solverSecs float64, slow []*Obligation, samples []map[string]interface{}, structural, missing []string, wall, tLoad, tGen float64, haveClaim bool, inconclusive []string) {
	var funcs, inlined, opaque, trusted, notes []string
	seenI, seenO, seenT, seenN := map[string]bool{}, map[string]bool{}, map[string]bool{}, map[string]bool{}
	for _, r := range results {
		if r.fn != nil {
			funcs = append(funcs, r.name)
		}
		if r.fc == nil {
			continue
		}
		for k := range r.fc.inlined {
			if !seenI[k] {
				seenI[k] = true
				inlined = append(inlined, k)
			}
		}
		for k := range r.fc.opaque {
			if !seenO[k] {
				seenO[k] = true
				opaque = append(opaque, k)
			}
		}
		for k := range r.fc.trusted {
			if !seenT[k] {
				seenT[k] = true
				trusted = append(trusted, k)
			}
		}
		for k := range r.fc.notes {
			if !seenN[k] {
				seenN[k] = true
				notes = append(notes, k)
			}
		}
	}
	sort.Strings(funcs)
	sort.Strings(inlined)
	sort.Strings(opaque)
	sort.Strings(trusted)
	sort.Strings(notes)
	var slowest []map[string]interface{}
	for i, o := range slow {
		if i >= 5 {
			break
		}
		slowest = append(slowest, map[string]interface{}{"obligation": o.name, "secs": round3(o.secs), "solver": o.solver})
	}
	kinds := map[string]int{}
	for _, o := range all {
		kinds[o.kind]++
	}
	if samples == nil {
		samples = []map[string]interface{}{}
	}
	assumptions := []string{
		"go/packages, go/types and go/ssa (x/tools v0.29.0) faithfully represent the compiled program; Go compiler and runtime",
		"govc's SSA-to-SMT encoding (DESIGN.md 2.4 / appendix E) and the SMT solvers (z3 4.8.12, z3 5.1.0, cvc5 1.0)",
		"sequential execution: no other goroutine changes the modelled state during a call; go statements and channel sends are skipped",
		"library models (math/big, bytes, encoding/binary, errors, fmt, sync) and the axioms in /verif/specs/lib_*.smt2 are trusted",
		"logging/formatting packages are assumed effect-free on modelled state",
		"opaque callees: results unconstrained, heap havocked on the inferred write set (frame inference is type/class based, not unsafe/reflection aware)",
		"termination is not proved except where a loop carries a decreases clause",
		"slice capacities and string lengths are assumed <= 2^40 (memory bound) so index arithmetic cannot wrap",
	}
	for _, t := range trusted {
		assumptions = append(assumptions, "trusted contract (assumed, not checked): "+t)
	}
	for _, n := range notes {
		assumptions = append(assumptions, "note: "+n)
	}
	ev := map[string]interface{}{
		"property_id": id,
		"tier":        tier,
		"seed":        seed,
		"level":       "proof",
		"wall_s":      round3(wall),
		"violations":  nViol,
		"assumptions": assumptions,
		"coverage": map[string]interface{}{
			"obligations":              nObl,
			"discharged":               nDis,
			"checker_cmd":              fmt.Sprintf("/verif/bin/govc check -id %s -tier %s", id, tier),
			"trusted_base":             []string{"go/ssa (x/tools v0.29.0)", "govc VC generator", "z3 4.8.12 / z3 5.1.0 / cvc5 1.0", "library models and axioms under /verif/specs"},
			"functions_under_contract": funcs,
			"inlined_functions":        inlined,
			"opaque_calls":             opaque,
			"effect_checks":            eng.effectReports,
			"trusted_contracts_used":   trusted,
			"obligation_kinds":         kinds,
			"discharged_by_backend":    solverCount,
			"confirmed_by_second_solver": confirmedCount(all),
			"solver_time_s":            round3(solverSecs),
			"load_s":                   round3(tLoad),
			"vcgen_s":                  round3(tGen),
			"slowest":                  slowest,
			"samples":                  samples,
			"structural_failures":      structural,
			"claimed_not_generated":    missing,
			"claimed_set_present":      haveClaim,
			"vacuity_inconclusive":     inconclusive,
			"machine_integers":         "exact 8/16/32/64-bit vectors; unbounded integers only as math/big values and in wide() spec terms",
		},
	}
	jb, _ := json.MarshalIndent(ev, "", " ")
	os.MkdirAll(filepath.Join(verif, "evidence"), 0o755)
	os.WriteFile(filepath.Join(verif, "evidence", id+".json"), jb, 0o644)
}

// confirmedCount: thorough tier, obligations whose proof a second solver reproduced.
func confirmedCount(all []*Obligation) int {
	n := 0
	for _, o := range all {
		if o.confirmed != "" {
			n++
		}
	}
	return n
}
