package main

import (
	"fmt"
	"go/types"
	"sort"
	"strings"

	"golang.org/x/tools/go/ssa"
)

type FuncResult struct {
	name     string
	fn       *ssa.Function
	contract *Contract
	fc       *FuncCtx
	err      string // structural failure (unsupported construct, unresolved identifier)
}

func (eng *Engine) findFunction(ct *Contract) *ssa.Function {
	p := eng.spkgs[ct.pkgPath]
	if p == nil {
		return nil
	}
	key := ct.key
	if i := strings.Index(key, "$"); i >= 0 {
		// anonymous function: Parent$N
		parent := eng.findFunction(&Contract{pkgPath: ct.pkgPath, key: key[:i]})
		if parent == nil {
			return nil
		}
		for _, an := range parent.AnonFuncs {
			if contractKey(an) == key {
				return an
			}
		}
		return nil
	}
	if i := strings.Index(key, "."); i >= 0 {
		tn, mn := key[:i], key[i+1:]
		o := p.Pkg.Scope().Lookup(tn)
		if o == nil {
			return nil
		}
		T := o.Type()
		for _, cand := range []types.Type{T, types.NewPointer(T)} {
			ms := eng.prog.MethodSets.MethodSet(cand)
			for j := 0; j < ms.Len(); j++ {
				if ms.At(j).Obj().Name() == mn {
					f := eng.prog.MethodValue(ms.At(j))
					if f != nil && f.Synthetic == "" {
						return f
					}
					// promoted/wrapper: find the declared method
					if f != nil {
						if fo, ok := ms.At(j).Obj().(*types.Func); ok {
							if g := eng.prog.FuncValue(fo); g != nil {
								return g
							}
						}
					}
				}
			}
		}
		return nil
	}
	return p.Func(key)
}

// verifyFunction generates all obligations for f against contract ct.
func (eng *Engine) verifyFunction(f *ssa.Function, ct *Contract) (res *FuncResult) {
	name := shortPkg(ct.pkgPath) + "." + ct.key
	res = &FuncResult{name: name, fn: f, contract: ct}
	fc := eng.newFuncCtx(name)
	res.fc = fc
	eng.topContract = ct
	eng.inlineStack = []*ssa.Function{f}
	defer func() {
		eng.topContract = nil
		eng.inlineStack = nil
		if r := recover(); r != nil {
			switch e := r.(type) {
			case unsupportedErr:
				res.err = e.Error()
			case evalErr:
				res.err = "contract expression: " + string(e)
			default:
				panic(r)
			}
		}
	}()
	fr := &Frame{fc: fc, fn: f, vals: map[ssa.Value]*Term{}, tuples: map[ssa.Value][]*Term{}, addrs: map[ssa.Value]*Addr{}, isTop: true, ctr: ct}
	eng.topFrame = fr
	alloc0 := Const("alloc0", SInt)
	st := &State{pc: True, heap: map[string]*Term{}, alloc: alloc0}
	fc.assume(True, Op(">=", SBool, alloc0, IntLit64(0)))
	fc.entry = st.clone()
	for _, p := range f.Params {
		t := Const("p!"+sanitize(p.Name()), SortOf(p.Type()))
		fr.vals[p] = t
		fr.typeInv(st, t, p.Type())
	}
	for _, fv := range f.FreeVars {
		t := Const("fv!"+sanitize(fv.Name()), SortOf(fv.Type()))
		fr.vals[fv] = t
		fr.typeInv(st, t, fv.Type())
	}
	env0 := fr.newEnv(st, st)
	for _, cl := range ct.requires {
		fc.assume(True, env0.boolExpr(cl.expr))
	}
	nreq := len(fc.assumps)
	exit, results := fr.exec(st)
	fc.constWriteObligations(eng.topIDs())
	// postconditions
	env := fr.newEnv(exit, fc.entry)
	env.bindResults(f.Signature, results)
	for i, cl := range ct.ensures {
		if cl.kind == "axiom" {
			fc.trusted[ct.pkgPath+"::"+ct.key+" (axiom: "+cl.text+")"] = true
			continue
		}
		nm := fmt.Sprintf("%s#post.%d", name, i+1)
		if cl.label != "" {
			nm = fmt.Sprintf("%s#post.%s", name, cl.label)
		}
		if n := len(fr.rets); n >= 2 && n <= 32 {
			// one conjunct per return statement, each over that path's own (unmerged) state:
			// the solver splits on the return taken instead of reasoning through merged ite terms
			var conj []*Term
			for _, r := range fr.rets {
				e := fr.newEnv(r.st, fc.entry)
				e.bindResults(f.Signature, r.results)
				conj = append(conj, Implies(r.st.pc, e.boolExpr(cl.expr)))
			}
			po := fc.oblige(nm, "post", cl.ids, True, And(conj...), cl, "postcondition: "+cl.text)
			po.parts = conj
			continue
		}
		g := env.boolExpr(cl.expr)
		fc.oblige(nm, "post", cl.ids, exit.pc, g, cl, "postcondition: "+cl.text)
	}
	// frame
	if ct.hasAssgn && ct.noframe {
		fc.trusted[ct.pkgPath+"::"+ct.key+" (frame not checked: noframe)"] = true
	}
	if ct.hasAssgn && !ct.noframe {
		// with 'inferred', only the classes the explicit items name are checked (the others are
		// whatever the body writes)
		eng.frameObligations(fr, fc, ct, exit, env0, name, ct.inferRest)
	}
	ids := eng.topIDs()
	// vacuity: the preconditions are satisfiable and some return is reachable
	o := fc.oblige(name+"#vacuity.pre", "vacuity", ids, True, True, nil, "preconditions are satisfiable")
	o.expect = "sat"
	o.nassump = nreq
	if len(fr.rets) > 0 {
		o2 := fc.oblige(name+"#vacuity.exit", "vacuity", ids, exit.pc, True, nil, "a normal return is reachable under all assumptions")
		o2.expect = "sat"
	}
	// parameters for model reporting
	for _, o := range fc.obls {
		for _, p := range f.Params {
			o.params = append(o.params, fr.vals[p])
			o.pnames = append(o.pnames, p.Name())
		}
		if o.kind == "post" || o.kind == "safe" {
			eng.planReplay(fr, fc, o, results)
		}
	}
	return res
}

func shortPkg(path string) string {
	if i := strings.LastIndex(path, "/"); i >= 0 {
		return path[i+1:]
	}
	return path
}

// frameObligations: every heap class changed by the body must be covered by the assigns clause.
func (eng *Engine) frameObligations(fr *Frame, fc *FuncCtx, ct *Contract, exit *State, env0 *Env, name string, onlyNamed bool) {
	whole := map[string]bool{}
	points := map[string][]*Term{}
	for _, item := range ct.assigns {
		switch {
		case strings.HasPrefix(item, "class "):
			whole[strings.TrimSpace(item[6:])] = true
			continue
		case eng.contracts.ghosts[item] != nil:
			whole["ghost:"+item] = true
			continue
		}
		base := strings.TrimSuffix(strings.TrimSuffix(item, "[..]"), "[*]")
		elems := base != item
		e, err := ParseExpr(base)
		if err != nil {
			efail("assigns item %q: %v", item, err)
		}
		eng.assignPoint(fr, env0, e, elems, item, whole, points)
	}
	var keys []string
	for k := range exit.heap {
		keys = append(keys, k)
	}
	sort.Strings(keys)
	ids := eng.topIDs()
	for _, k := range keys {
		if classIsLocal(k) || strings.HasPrefix(k, "Box:") || whole[k] {
			continue
		}
		if onlyNamed && len(points[k]) == 0 {
			continue
		}
		s := fc.heapSorts[k]
		h0 := fc.heapInit(k, s)
		h1 := exit.heap[k]
		if h0 == h1 {
			continue
		}
		var goal *Term
		if strings.HasPrefix(k, "G:") || strings.HasPrefix(k, "ghost:") {
			goal = Eq(h1, h0)
		} else {
			r := BVar("r", SRef)
			conds := []*Term{Op("<=", SBool, r, fc.entry.alloc)}
			for _, p := range points[k] {
				conds = append(conds, Not(Eq(r, p)))
			}
			goal = Forall([]*Term{r}, Implies(And(conds...), Eq(Select(h1, r), Select(h0, r))))
		}
		fc.oblige(fmt.Sprintf("%s#frame.%s", name, sanitize(k)), "frame", ids, exit.pc, goal, nil, "only the declared locations of "+k+" are modified")
	}
}

func (eng *Engine) assignPoint(fr *Frame, env *Env, e Expr, elems bool, item string, whole map[string]bool, points map[string][]*Term) {
	fc := fr.fc
	st := env.st
	switch x := e.(type) {
	case *ESel:
		bt, bty := env.eval(x.X)
		pt, ok := bty.Underlying().(*types.Pointer)
		if !ok {
			efail("assigns %s: base is not a pointer", item)
		}
		s := pt.Elem().Underlying().(*types.Struct)
		idx, _ := findField(s, x.Name)
		if idx < 0 {
			efail("assigns %s: no such field", item)
		}
		a := fc.fieldAddr(bt, pt.Elem(), idx)
		if elems {
			sl := s.Field(idx).Type().Underlying().(*types.Slice)
			v := fc.load(st, a)
			points[elemClass(sl.Elem())] = append(points[elemClass(sl.Elem())], SlArr(v))
			return
		}
		points[a.class] = append(points[a.class], bt)
	case *EUn:
		t, ty := env.eval(x.X)
		pt := ty.Underlying().(*types.Pointer)
		a := fc.derefAddr(t, pt.Elem())
		if a.kind == "structref" {
			s := pt.Elem().Underlying().(*types.Struct)
			for i := 0; i < s.NumFields(); i++ {
				k := fieldClass(pt.Elem(), i)
				points[k] = append(points[k], t)
			}
			return
		}
		points[a.class] = append(points[a.class], t)
	case *EIdent:
		t, ty := env.eval(x)
		switch u := ty.Underlying().(type) {
		case *types.Slice:
			points[elemClass(u.Elem())] = append(points[elemClass(u.Elem())], SlArr(t))
		case *types.Map:
			hk, _, vk, _ := mapClasses(u)
			points[hk] = append(points[hk], t)
			points[vk] = append(points[vk], t)
		case *types.Pointer:
			if isBigInt(u.Elem()) {
				points["big"] = append(points["big"], t)
				return
			}
			eng.assignPoint(fr, env, &EUn{"*", x}, false, item, whole, points)
		}
	case *ECall:
		var t *Term
		if x.Fun != "atomicfield" {
			t, _ = env.eval(x.Args[0])
		}
		switch x.Fun {
		case "big":
			points["big"] = append(points["big"], t)
		case "lockdepth":
			points["lock"] = append(points["lock"], t)
		case "atomicfield":
			if sel, ok := x.Args[0].(*ESel); ok {
				bt, bty := env.eval(sel.X)
				if pt, ok := bty.Underlying().(*types.Pointer); ok {
					if idx, _ := findField(pt.Elem().Underlying().(*types.Struct), sel.Name); idx >= 0 {
						k := "A:" + fieldClass(pt.Elem(), idx)
						points[k] = append(points[k], bt)
					}
				}
			}
			return
		}
	}
}
