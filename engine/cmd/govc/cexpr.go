package main

// Contract expression evaluation: Expr -> Term in a symbolic state.

import (
	"fmt"
	"go/types"
	"math/big"
	"strings"

	"golang.org/x/tools/go/ssa"
)

type envVar struct {
	t  *Term
	ty types.Type
	// captured: t is the address of a variable captured by the closure under contract; the name
	// denotes the variable's value in the state the expression is evaluated in
	captured bool
}

type Env struct {
	fr          *Frame
	fc          *FuncCtx
	st, old     *State
	vars        map[string]envVar
	bound       map[string]envVar
	phiOverride map[*ssa.Phi]*Term
	phiEntry    map[*ssa.Phi]*Term
	loopEntry   *State
	at          *ssa.BasicBlock
	lets        map[string]Expr
	inOld       bool
	pkg         *types.Package
}

type evalErr string

func (e evalErr) Error() string { return string(e) }

func efail(f string, a ...interface{}) { panic(evalErr(fmt.Sprintf(f, a...))) }

// untyped numeric literal marker
type numLit struct{ v *big.Int }

var pendingNums = map[*Term]*big.Int{}

func (fr *Frame) newEnv(st, old *State) *Env {
	env := &Env{fr: fr, fc: fr.fc, st: st, old: old, vars: map[string]envVar{}, bound: map[string]envVar{}, lets: map[string]Expr{}}
	fn := fr.fn
	for _, p := range fn.Params {
		env.vars[p.Name()] = envVar{t: fr.val(p), ty: p.Type()}
	}
	for i, fv := range fn.FreeVars {
		if i < len(fr.binds) && fr.binds[i] != nil {
			env.vars[fv.Name()] = envVar{t: fr.binds[i], ty: fv.Type()}
		} else if t, ok := fr.vals[fv]; ok && t != nil {
			// a closure under contract: its captured variables by name (they are pointers to
			// the enclosing function's variables: write *name in contracts)
			if pt, isPtr := fv.Type().Underlying().(*types.Pointer); isPtr {
				env.vars[fv.Name()] = envVar{t: t, ty: pt.Elem(), captured: true}
			} else {
				env.vars[fv.Name()] = envVar{t: t, ty: fv.Type()}
			}
		}
	}
	if fn.Pkg != nil {
		env.pkg = fn.Pkg.Pkg
	} else if fn.Parent() != nil && fn.Parent().Pkg != nil {
		env.pkg = fn.Parent().Pkg.Pkg
	}
	c := fr.ctr
	if c == nil {
		c = fr.fc.eng.contractOf(fn)
	}
	if c != nil {
		for _, l := range c.lets {
			env.lets[l.name] = l.expr
		}
	}
	return env
}

func (env *Env) bindResults(sig *types.Signature, res []*Term) {
	rs := sig.Results()
	for i := 0; i < rs.Len() && i < len(res); i++ {
		r := rs.At(i)
		nm := r.Name()
		if nm == "" || nm == "_" {
			nm = fmt.Sprintf("result%d", i)
			if rs.Len() == 1 {
				env.vars["result"] = envVar{t: res[i], ty: r.Type()}
			}
			if isErrorType(r.Type()) {
				if _, taken := env.vars["err"]; !taken {
					env.vars["err"] = envVar{t: res[i], ty: r.Type()}
				}
			}
		}
		env.vars[nm] = envVar{t: res[i], ty: r.Type()}
		env.vars[fmt.Sprintf("result%d", i)] = envVar{t: res[i], ty: r.Type()}
	}
}

func isErrorType(t types.Type) bool {
	return types.Identical(t, types.Universe.Lookup("error").Type())
}

func (env *Env) boolExpr(e Expr) *Term {
	t, _ := env.eval(e)
	if t.sort != SBool {
		efail("expected boolean, got %s in %s", t.sort, exprString(e))
	}
	return t
}

func (env *Env) state() *State {
	if env.inOld {
		return env.old
	}
	return env.st
}

func basicType(name string) types.Type {
	if o := types.Universe.Lookup(name); o != nil {
		if tn, ok := o.(*types.TypeName); ok {
			return tn.Type()
		}
	}
	return nil
}

func (env *Env) coerce(a *Term, aty types.Type, b *Term, bty types.Type) (*Term, *Term, types.Type) {
	an, aok := pendingNums[a]
	bn, bok := pendingNums[b]
	switch {
	case aok && bok:
		return IntLit(an), IntLit(bn), nil
	case aok:
		return numAs(an, b.sort), b, bty
	case bok:
		return a, numAs(bn, a.sort), aty
	}
	if a.sort != b.sort {
		// nil vs typed
		efail("operand sorts differ: %s vs %s (%s / %s)", a.sort, b.sort, a.Short(), b.Short())
	}
	ty := aty
	if ty == nil {
		ty = bty
	}
	return a, b, ty
}

func numAs(v *big.Int, s Sort) *Term {
	switch {
	case s.IsBV():
		return BVLit(v, s.Bits())
	case s == SInt:
		return IntLit(v)
	}
	efail("numeric literal used at sort %s", s)
	return nil
}

func mkNum(v *big.Int) *Term {
	t := Const("num!"+v.String(), SInt)
	pendingNums[t] = v
	return t
}

func (env *Env) resolveNum(t *Term) *Term {
	if v, ok := pendingNums[t]; ok {
		return IntLit(v)
	}
	return t
}

func (env *Env) eval(e Expr) (*Term, types.Type) {
	switch x := e.(type) {
	case *ENum:
		return mkNum(x.Val), nil
	case *EStr:
		return StrLit(x.S), types.Typ[types.String]
	case *EIdent:
		return env.ident(x.Name)
	case *EUn:
		return env.unary(x)
	case *EBin:
		return env.binary(x)
	case *ESel:
		return env.selector(x)
	case *EIndex:
		return env.index(x)
	case *ECall:
		return env.callExpr(x)
	case *EQuant:
		return env.quant(x)
	case *ESlice:
		efail("slice expressions are not supported in contracts: %s", exprString(e))
	}
	efail("cannot evaluate %T", e)
	return nil, nil
}

var nilMarker = Const("nil!marker", SInt)

func (env *Env) ident(name string) (*Term, types.Type) {
	if v, ok := env.bound[name]; ok {
		return v.t, v.ty
	}
	switch name {
	case "true":
		return True, nil
	case "false":
		return False, nil
	case "nil":
		return nilMarker, nil
	case "$alloc":
		return env.state().alloc, nil
	case "$sent", "$recv":
		// number of channel sends / receives this activation has performed (ghost counters kept
		// by the symbolic execution of send, receive and select)
		return env.fc.get(env.state(), "ghost:"+name, SBV64), types.Typ[types.Uint64]
	}
	if l, ok := env.lets[name]; ok {
		return env.eval(l)
	}
	// inside a loop clause a name means the variable's current value (the header phi when the
	// loop assigns it); under old() it means the value at function entry
	if env.fr != nil && env.at != nil && !env.inOld {
		if t, ty, ok := env.fr.resolveLocal(name, env); ok {
			return t, ty
		}
	}
	if v, ok := env.vars[name]; ok {
		if v.captured {
			return env.fc.load(env.state(), env.fc.derefAddr(v.t, v.ty)), v.ty
		}
		return v.t, v.ty
	}
	if g, ok := env.fc.eng.contracts.ghosts[name]; ok {
		return env.fc.get(env.state(), "ghost:"+name, g.sort), nil
	}
	// package-level variable or constant
	if env.pkg != nil {
		if t, ty, ok := env.pkgObject(env.pkg, name); ok {
			return t, ty
		}
	}
	if f := env.fc.eng.specs.byName[name]; f != nil && len(f.args) == 0 {
		return App(name, f.res), nil
	}
	efail("unknown identifier %q", name)
	return nil, nil
}

func (env *Env) pkgObject(pkg *types.Package, name string) (*Term, types.Type, bool) {
	o := pkg.Scope().Lookup(name)
	if o == nil {
		return nil, nil, false
	}
	switch ob := o.(type) {
	case *types.Const:
		if isIntType(ob.Type()) || ob.Type().Underlying().(*types.Basic).Info()&types.IsUntyped != 0 {
			if v, ok := constBig(ob); ok {
				if b, okb := ob.Type().Underlying().(*types.Basic); okb && b.Info()&types.IsUntyped == 0 {
					n, _ := intBits(b)
					return BVLit(v, n), ob.Type(), true
				}
				return mkNum(v), nil, true
			}
		}
	case *types.Var:
		sp := env.fc.eng.prog.Package(pkg)
		if sp == nil {
			return nil, nil, false
		}
		g, ok := sp.Members[name].(*ssa.Global)
		if !ok {
			return nil, nil, false
		}
		a := env.fr.globalAddr(g)
		return env.fc.eng.loadGlobal(env.fr, env.state(), g, a), ob.Type(), true
	}
	return nil, nil, false
}

func (env *Env) unary(x *EUn) (*Term, types.Type) {
	t, ty := env.eval(x.X)
	switch x.Op {
	case "!":
		return Not(t), nil
	case "-":
		if v, ok := pendingNums[t]; ok {
			return mkNum(new(big.Int).Neg(v)), nil
		}
		if t.sort == SInt {
			return Op("-", SInt, t), nil
		}
		return Op("bvneg", t.sort, t), ty
	case "^":
		return Op("bvnot", t.sort, t), ty
	case "*":
		pt, ok := ty.Underlying().(*types.Pointer)
		if !ok {
			efail("dereference of non-pointer %s", exprString(x.X))
		}
		return env.fc.load(env.state(), env.fc.derefAddr(t, pt.Elem())), pt.Elem()
	}
	efail("bad unary %s", x.Op)
	return nil, nil
}

func (env *Env) binary(x *EBin) (*Term, types.Type) {
	switch x.Op {
	case "&&", "||", "==>", "<==>":
		a := env.boolExpr(x.L)
		b := env.boolExpr(x.R)
		switch x.Op {
		case "&&":
			return And(a, b), nil
		case "||":
			return Or(a, b), nil
		case "==>":
			return Implies(a, b), nil
		default:
			return Eq(a, b), nil
		}
	}
	a, aty := env.eval(x.L)
	b, bty := env.eval(x.R)
	// nil comparisons
	if a == nilMarker || b == nilMarker {
		if a == nilMarker {
			a, b = b, a
			aty = bty
		}
		var z *Term
		switch a.sort {
		case SRef:
			z = NilRef
		case SIface:
			z = NilIface
		case SSlice:
			r := Eq(SlArr(a), IntLit64(0))
			if x.Op == "!=" {
				return Not(r), nil
			}
			return r, nil
		default:
			efail("nil compared with %s", a.sort)
		}
		r := Eq(a, z)
		if x.Op == "!=" {
			r = Not(r)
		}
		return r, nil
	}
	a, b, ty := env.coerce(a, aty, b, bty)
	signed := ty != nil && isSigned(ty)
	if a.sort == SInt {
		switch x.Op {
		case "+":
			return Op("+", SInt, a, b), nil
		case "-":
			return Op("-", SInt, a, b), nil
		case "*":
			return iMul(a, b), nil
		case "/":
			return eDiv(a, b), nil
		case "%":
			return eMod(a, b), nil
		case "==":
			return Eq(a, b), nil
		case "!=":
			return Not(Eq(a, b)), nil
		case "<", "<=", ">", ">=":
			return Op(x.Op, SBool, a, b), nil
		}
		efail("operator %s on Int", x.Op)
	}
	if a.sort.IsBV() {
		n := a.sort.Bits()
		switch x.Op {
		case "+":
			return bvBin("bvadd", a, b), ty
		case "-":
			return bvBin("bvsub", a, b), ty
		case "*":
			return bvBin("bvmul", a, b), ty
		case "/":
			if signed {
				return Op("bvsdiv", a.sort, a, b), ty
			}
			return Op("bvudiv", a.sort, a, b), ty
		case "%":
			if signed {
				return Op("bvsrem", a.sort, a, b), ty
			}
			return Op("bvurem", a.sort, a, b), ty
		case "&":
			return bvBin("bvand", a, b), ty
		case "|":
			return bvBin("bvor", a, b), ty
		case "^":
			return Op("bvxor", a.sort, a, b), ty
		case "&^":
			return Op("bvand", a.sort, a, Op("bvnot", b.sort, b)), ty
		case "<<":
			return Op("bvshl", a.sort, a, b), ty
		case ">>":
			if signed {
				return Op("bvashr", a.sort, a, b), ty
			}
			return Op("bvlshr", a.sort, a, b), ty
		case "==":
			return Eq(a, b), nil
		case "!=":
			return Not(Eq(a, b)), nil
		case "<", "<=", ">", ">=":
			pre := "bvu"
			if signed {
				pre = "bvs"
			}
			suf := map[string]string{"<": "lt", "<=": "le", ">": "gt", ">=": "ge"}[x.Op]
			return bvCmp(pre+suf, a, b), nil
		}
		_ = n
		efail("operator %s on bit-vector", x.Op)
	}
	switch x.Op {
	case "==":
		if a.sort == SStr {
			return env.fr.strEq(a, b), nil
		}
		return Eq(a, b), nil
	case "!=":
		if a.sort == SStr {
			return Not(env.fr.strEq(a, b)), nil
		}
		return Not(Eq(a, b)), nil
	}
	efail("operator %s on sort %s", x.Op, a.sort)
	return nil, nil
}

func (env *Env) selector(x *ESel) (*Term, types.Type) {
	// package-qualified name?
	if id, ok := x.X.(*EIdent); ok {
		if _, isVar := env.vars[id.Name]; !isVar {
			if _, isB := env.bound[id.Name]; !isB {
				if _, isL := env.lets[id.Name]; !isL {
					if p := env.findImport(id.Name); p != nil {
						if t, ty, ok := env.pkgObject(p, x.Name); ok {
							return t, ty
						}
						efail("unknown package member %s.%s", id.Name, x.Name)
					}
				}
			}
		}
	}
	t, ty := env.eval(x.X)
	if ty == nil {
		efail("field selection on untyped value %s", exprString(x.X))
	}
	return env.selectField(t, ty, x.Name)
}

func (env *Env) findImport(name string) *types.Package {
	if env.pkg == nil {
		return nil
	}
	for _, p := range env.pkg.Imports() {
		if p.Name() == name {
			return p
		}
	}
	for _, p := range env.fc.eng.allPkgs {
		if p.Name() == name {
			return p
		}
	}
	return nil
}

func (env *Env) selectField(t *Term, ty types.Type, name string) (*Term, types.Type) {
	st := env.state()
	if pt, ok := ty.Underlying().(*types.Pointer); ok {
		s, ok := pt.Elem().Underlying().(*types.Struct)
		if !ok {
			efail("field %s of pointer to non-struct", name)
		}
		idx, emb := findField(s, name)
		if idx >= 0 {
			a := env.fc.fieldAddr(t, pt.Elem(), idx)
			return env.fc.load(st, a), s.Field(idx).Type()
		}
		if emb >= 0 {
			a := env.fc.fieldAddr(t, pt.Elem(), emb)
			v := env.fc.load(st, a)
			return env.selectField(v, s.Field(emb).Type(), name)
		}
		efail("no field %s in %s", name, pt.Elem())
	}
	if s, ok := ty.Underlying().(*types.Struct); ok {
		idx, emb := findField(s, name)
		dt := TR.structDT(ty)
		if idx >= 0 {
			return SelField(dt, idx, t), s.Field(idx).Type()
		}
		if emb >= 0 {
			return env.selectField(SelField(dt, emb, t), s.Field(emb).Type(), name)
		}
	}
	efail("cannot select %s on %s", name, ty)
	return nil, nil
}

func findField(s *types.Struct, name string) (direct int, embedded int) {
	direct, embedded = -1, -1
	for i := 0; i < s.NumFields(); i++ {
		if s.Field(i).Name() == name {
			return i, -1
		}
	}
	for i := 0; i < s.NumFields(); i++ {
		f := s.Field(i)
		if !f.Embedded() {
			continue
		}
		ft := f.Type()
		if p, ok := ft.Underlying().(*types.Pointer); ok {
			ft = p.Elem()
		}
		if es, ok := ft.Underlying().(*types.Struct); ok {
			if d, e := findField(es, name); d >= 0 || e >= 0 {
				return -1, i
			}
		}
	}
	return -1, -1
}

func (env *Env) index(x *EIndex) (*Term, types.Type) {
	t, ty := env.eval(x.X)
	i, ity := env.eval(x.I)
	st := env.state()
	if ty == nil {
		if t.sort.IsArr() {
			is, es := t.sort.ArrParts()
			if v, ok := pendingNums[i]; ok {
				i = numAs(v, is)
			}
			_ = es
			return Select(t, i), nil
		}
		efail("index of untyped non-array %s", exprString(x.X))
	}
	toIdx := func() *Term {
		if v, ok := pendingNums[i]; ok {
			return BVLit(v, 64)
		}
		if i.sort.IsBV() {
			return toBV64(i, ity != nil && isSigned(ity))
		}
		efail("index %s is not an integer", exprString(x.I))
		return nil
	}
	switch u := ty.Underlying().(type) {
	case *types.Slice:
		k := toIdx()
		row := Select(env.fc.get(st, elemClass(u.Elem()), elemClassSort(u.Elem())), SlArr(t))
		return Select(row, bvBin("bvadd", SlOff(t), k)), u.Elem()
	case *types.Array:
		return Select(t, toIdx()), u.Elem()
	case *types.Pointer:
		if at, ok := u.Elem().Underlying().(*types.Array); ok {
			row := Select(env.fc.get(st, elemClass(at.Elem()), elemClassSort(at.Elem())), t)
			return Select(row, toIdx()), at.Elem()
		}
	case *types.Map:
		_, _, vk, vs := mapClasses(u)
		if v, ok := pendingNums[i]; ok {
			i = numAs(v, mapKeySort(u.Key()))
		}
		// Go semantics: an absent key (or a nil map) reads as the zero value
		hk, hs, _, _ := mapClasses(u)
		present := And(Not(Eq(t, IntLit64(0))), Select(Select(env.fc.get(st, hk, hs), t), i))
		return Ite(present, Select(Select(env.fc.get(st, vk, vs), t), i), ZeroOf(u.Elem())), u.Elem()
	case *types.Basic:
		if u.Kind() == types.String {
			return Select(StrData(t), toIdx()), types.Typ[types.Byte]
		}
	}
	efail("cannot index %s", ty)
	return nil, nil
}

func (env *Env) quant(x *EQuant) (*Term, types.Type) {
	saved := map[string]envVar{}
	var bvs []*Term
	for _, v := range x.Vars {
		if old, ok := env.bound[v.Name]; ok {
			saved[v.Name] = old
		}
		var s Sort
		var ty types.Type
		switch v.Type {
		case "ref", "mathint", "Int":
			s = SInt
		case "bool":
			s = SBool
		default:
			ty = basicType(v.Type)
			if ty == nil {
				ty = env.fc.eng.lookupTypeByName(v.Type)
			}
			if ty == nil {
				efail("unknown bound variable type %s", v.Type)
			}
			s = SortOf(ty)
		}
		bv := BVar("q!"+v.Name, s)
		bvs = append(bvs, bv)
		env.bound[v.Name] = envVar{t: bv, ty: ty}
	}
	body := env.boolExpr(x.Body)
	var pats [][]*Term
	for _, p := range x.Pats {
		pt, _ := env.eval(p)
		pats = append(pats, []*Term{pt})
	}
	for _, v := range x.Vars {
		delete(env.bound, v.Name)
	}
	for k, v := range saved {
		env.bound[k] = v
	}
	if x.Forall {
		return Forall(bvs, body, pats...), nil
	}
	return Exists(bvs, body, pats...), nil
}

func (env *Env) callExpr(x *ECall) (*Term, types.Type) {
	st := env.state()
	arg := func(i int) (*Term, types.Type) {
		if i >= len(x.Args) {
			efail("%s: missing argument %d", x.Fun, i)
		}
		return env.eval(x.Args[i])
	}
	litArg := func(i int) int {
		n, ok := x.Args[i].(*ENum)
		if !ok {
			efail("%s: argument %d must be a literal", x.Fun, i)
		}
		return int(n.Val.Int64())
	}
	switch x.Fun {
	case "old":
		if env.old == nil {
			efail("old() not available here")
		}
		saved := env.inOld
		env.inOld = true
		t, ty := arg(0)
		env.inOld = saved
		return t, ty
	case "len", "cap":
		t, ty := arg(0)
		if ty == nil {
			efail("len of untyped value")
		}
		switch u := ty.Underlying().(type) {
		case *types.Slice:
			if x.Fun == "len" {
				return SlLen(t), types.Typ[types.Int]
			}
			return SlCap(t), types.Typ[types.Int]
		case *types.Basic:
			return StrLen(t), types.Typ[types.Int]
		case *types.Array:
			return BVLit64(uint64(u.Len()), 64), types.Typ[types.Int]
		case *types.Map:
			return env.fc.eng.mapLen(env.fc, st, t, u), types.Typ[types.Int]
		}
		efail("len of %s", ty)
	case "big":
		t, _ := arg(0)
		return Select(env.fc.get(st, "big", SArr(SRef, SInt)), t), nil
	case "arr":
		t, ty := arg(0)
		switch u := ty.Underlying().(type) {
		case *types.Slice:
			return Select(env.fc.get(st, elemClass(u.Elem()), elemClassSort(u.Elem())), SlArr(t)), nil
		case *types.Basic:
			return StrData(t), nil
		case *types.Array:
			return t, nil
		}
		efail("arr of %s", ty)
	case "off":
		t, ty := arg(0)
		if _, ok := ty.Underlying().(*types.Slice); ok {
			return SlOff(t), types.Typ[types.Uint64]
		}
		return BVLit64(0, 64), types.Typ[types.Uint64]
	case "ref":
		t, ty := arg(0)
		if ty != nil {
			if _, ok := ty.Underlying().(*types.Slice); ok {
				return SlArr(t), nil
			}
		}
		if t.sort == SIface {
			return IfVal(t), nil
		}
		return t, nil
	case "tag":
		t, _ := arg(0)
		return IfTag(t), nil
	case "wide", "swide":
		t, ty := arg(0)
		n := litArg(1)
		if v, ok := pendingNums[t]; ok {
			return BVLit(v, n), nil
		}
		if !t.sort.IsBV() || t.sort.Bits() > n {
			efail("wide: bad operand")
		}
		if x.Fun == "swide" || (x.Fun == "wide" && ty != nil && isSigned(ty) && false) {
			return SignExt(n-t.sort.Bits(), t), nil
		}
		return ZeroExt(n-t.sort.Bits(), t), nil
	case "trunc":
		t, _ := arg(0)
		n := litArg(1)
		return Extract(n-1, 0, t), nil
	case "U":
		t, _ := arg(0)
		if v, ok := pendingNums[t]; ok {
			return IntLit(v), nil
		}
		if t.sort.IsBV() && t.sort.Bits() <= 64 {
			return U64(t), nil
		}
		return Op("bv2nat", SInt, t), nil
	case "heapof":
		// the current value of a heap class as an array (for recursive spec functions that
		// walk a data structure): "big", "F:<pkg>.<Type>.<field>", "E:<elem type>"
		ks, ok := x.Args[0].(*EStr)
		if !ok {
			efail("heapof needs a string class key")
		}
		k := ks.S
		s, ok := env.fc.heapSorts[k]
		if !ok {
			if k == "big" {
				s = bigSort
			} else if t, ok2 := classVal[k]; ok2 && strings.HasPrefix(k, "F:") {
				s = SArr(SRef, SortOf(t))
			} else if t, ok2 := classVal[k]; ok2 && strings.HasPrefix(k, "E:") {
				s = SArr(SRef, SArr(SBV64, SortOf(t)))
			} else {
				efail("heapof: unknown heap class %s", k)
			}
		}
		return env.fc.get(st, k, s), nil
	case "keptheap":
		// keptheap("<class>"[, ref]): every object of the class that existed at function entry
		// (other than ref) holds its entry contents - a frame fact for loop invariants
		ks, ok := x.Args[0].(*EStr)
		if !ok {
			efail("keptheap needs a string class key")
		}
		k := ks.S
		if strings.HasPrefix(k, "E:") {
			if t := env.fc.eng.lookupTypeByName(k[2:]); t != nil {
				elemClass(t) // registers the sort of the class
			}
		}
		s, ok := env.fc.sortForHavoc(k)
		if !ok {
			efail("keptheap: unknown heap class %s", k)
		}
		cur := env.fc.get(st, k, s)
		was := env.fc.get(env.old, k, s)
		r := BVar("r", SRef)
		cond := Op("<=", SBool, r, env.old.alloc)
		if len(x.Args) > 1 {
			ex, _ := arg(1)
			if ex.sort == SSlice {
				ex = SlArr(ex)
			}
			cond = And(cond, Not(Eq(r, ex)))
		}
		return Forall([]*Term{r}, Implies(cond, Eq(Select(cur, r), Select(was, r))), []*Term{Select(cur, r)}), nil
	case "store":
		a, _ := arg(0)
		i, _ := arg(1)
		v, _ := arg(2)
		if !a.sort.IsArr() {
			efail("store: first argument is not an array")
		}
		is, es := a.sort.ArrParts()
		if n, ok := pendingNums[i]; ok {
			i = numAs(n, is)
		}
		if n, ok := pendingNums[v]; ok {
			v = numAs(n, es)
		}
		return Store(a, i, v), nil
	case "L":
		t, _ := arg(0)
		return L64(env.resolveNum(t)), types.Typ[types.Uint64]
	case "S":
		t, _ := arg(0)
		if v, ok := pendingNums[t]; ok {
			return IntLit(v), nil
		}
		return S64(t), nil
	case "imax", "imin":
		a, _ := arg(0)
		b, _ := arg(1)
		a, b = env.resolveNum(a), env.resolveNum(b)
		if x.Fun == "imax" {
			return Ite(Op(">=", SBool, a, b), a, b), nil
		}
		return Ite(Op("<=", SBool, a, b), a, b), nil
	case "fresh":
		t, _ := arg(0)
		if t.sort == SSlice {
			t = SlArr(t)
		}
		return Op(">", SBool, t, env.old.alloc), nil
	case "allocated":
		t, _ := arg(0)
		if t.sort == SSlice {
			t = SlArr(t)
		}
		return Op("<=", SBool, t, st.alloc), nil
	case "$seen":
		// $seen(k): key k was already visited by the map-range loop whose header carries the
		// invariant (every present key is visited exactly once; at exit all present keys are)
		if env.at == nil {
			efail("$seen is only available in loop invariants")
		}
		for _, in := range env.at.Instrs {
			nx, ok := in.(*ssa.Next)
			if !ok {
				continue
			}
			rs := env.fr.ranges[nx.Iter]
			if rs == nil || rs.seen == "" {
				continue
			}
			k, _ := arg(0)
			ks := mapKeySort(rs.kt)
			if v, ok := pendingNums[k]; ok {
				k = numAs(v, ks)
			}
			return Select(env.fc.get(st, rs.seen, SArr(ks, SBool)), k), nil
		}
		efail("$seen: no map range at this loop header")
		return nil, nil
	case "has":
		m, mty := arg(0)
		k, _ := arg(1)
		mt, ok := mty.Underlying().(*types.Map)
		if !ok {
			efail("has: not a map")
		}
		hk, hs, _, _ := mapClasses(mt)
		if v, ok := pendingNums[k]; ok {
			k = numAs(v, mapKeySort(mt.Key()))
		}
		return And(Not(Eq(m, IntLit64(0))), Select(Select(env.fc.get(st, hk, hs), m), k)), nil
	case "typeis":
		t, _ := arg(0)
		s, ok := x.Args[1].(*EStr)
		if !ok {
			efail("typeis needs a string type name")
		}
		ty := env.fc.eng.lookupTypeByName(s.S)
		if ty == nil {
			efail("typeis: unknown type %s", s.S)
		}
		return Eq(IfTag(t), IntLit64(int64(TR.TypeID(ty)))), nil
	case "unbox":
		t, _ := arg(0)
		s, ok := x.Args[1].(*EStr)
		if !ok {
			efail("unbox needs a string type name")
		}
		ty := env.fc.eng.lookupTypeByName(s.S)
		if ty == nil {
			efail("unbox: unknown type %s", s.S)
		}
		return env.fr.unbox(st, t, ty), ty
	case "atomicfield":
		// content of the atomic.Value stored in field p.f
		sel, ok := x.Args[0].(*ESel)
		if !ok {
			efail("atomicfield() needs a field selection")
		}
		bt, bty := env.eval(sel.X)
		pt, ok := bty.Underlying().(*types.Pointer)
		if !ok {
			efail("atomicfield(): base is not a pointer")
		}
		sst := pt.Elem().Underlying().(*types.Struct)
		idx, _ := findField(sst, sel.Name)
		if idx < 0 {
			efail("atomicfield(): no field %s", sel.Name)
		}
		return Select(env.fc.get(st, "A:"+fieldClass(pt.Elem(), idx), SArr(SRef, SIface)), bt), nil
	case "lockdepth":
		t, _ := arg(0)
		return Select(env.fc.get(st, "lock", SArr(SRef, SInt)), t), nil
	case "ite":
		c := env.boolExpr(x.Args[0])
		a, aty := arg(1)
		b, bty := arg(2)
		a, b, ty := env.coerce(a, aty, b, bty)
		return Ite(c, a, b), ty
	case "as":
		// as(e, "T"): view an untyped term (e.g. the result of a spec function) at Go type T
		t, _ := arg(0)
		ts, ok := x.Args[1].(*EStr)
		if !ok {
			efail("as() needs a type name string")
		}
		ty := env.fc.eng.lookupTypeByName(ts.S)
		if ty == nil {
			efail("as(): unknown type %s", ts.S)
		}
		if SortOf(ty) != t.sort {
			efail("as(): sort %s does not fit type %s", t.sort, ts.S)
		}
		return t, ty
	case "addr":
		// addr(p.f): identity of the field's address (for mutexes)
		sel, ok := x.Args[0].(*ESel)
		if !ok {
			efail("addr() needs a field selection")
		}
		bt, bty := env.eval(sel.X)
		if bty == nil {
			efail("addr(): base %s has no Go type (use as(e, \"T\"))", exprString(sel.X))
		}
		pt, ok := bty.Underlying().(*types.Pointer)
		if !ok {
			efail("addr(): base is not a pointer")
		}
		s := pt.Elem().Underlying().(*types.Struct)
		idx, _ := findField(s, sel.Name)
		if idx < 0 {
			efail("addr(): no field %s", sel.Name)
		}
		return addrTerm(env.fc.fieldAddr(bt, pt.Elem(), idx)), nil
	}
	// contract-level macros: call by value, evaluated in the current (or old) state
	if md := env.fc.eng.contracts.macros[x.Fun]; md != nil {
		if len(md.params) != len(x.Args) {
			efail("macro %s expects %d arguments", md.name, len(md.params))
		}
		if md.body == nil {
			b, err := ParseExpr(md.text)
			if err != nil {
				efail("macro %s: %v", md.name, err)
			}
			md.body = b
		}
		savedPkg := env.pkg
		if mp := env.fc.eng.pkgByPath(md.pkg); mp != nil {
			env.pkg = mp
		}
		defer func() { env.pkg = savedPkg }()
		savedVars, savedLets, savedAt := env.vars, env.lets, env.at
		nv := map[string]envVar{}
		for i, p := range md.params {
			t, ty := arg(i)
			nv[p] = envVar{t: t, ty: ty}
		}
		env.vars, env.lets, env.at = nv, map[string]Expr{}, nil
		defer func() { env.vars, env.lets, env.at = savedVars, savedLets, savedAt }()
		return env.eval(md.body)
	}
	// Go conversions to basic integer types
	if bt := basicType(x.Fun); bt != nil && isIntType(bt) && len(x.Args) == 1 {
		t, ty := arg(0)
		n := SortOf(bt).Bits()
		if v, ok := pendingNums[t]; ok {
			return BVLit(v, n), bt
		}
		if !t.sort.IsBV() {
			efail("conversion %s of non-integer", x.Fun)
		}
		return convInt(t, ty != nil && isSigned(ty), n), bt
	}
	// spec function
	name := strings.ReplaceAll(x.Fun, ".", "_")
	if f := env.fc.eng.specs.byName[name]; f != nil {
		if len(f.args) != len(x.Args) {
			efail("spec function %s expects %d arguments, got %d", name, len(f.args), len(x.Args))
		}
		var as []*Term
		for i := range x.Args {
			a, _ := arg(i)
			if v, ok := pendingNums[a]; ok {
				a = numAs(v, f.args[i])
			}
			if a.sort != f.args[i] {
				efail("spec function %s argument %d: sort %s, expected %s", name, i, a.sort, f.args[i])
			}
			as = append(as, a)
		}
		return App(name, f.res, as...), nil
	}
	efail("unknown function %s in contract expression", x.Fun)
	return nil, nil
}

// resolveLocal maps a local variable name to its SSA value at block env.at.
func (fr *Frame) resolveLocal(name string, env *Env) (*Term, types.Type, bool) {
	at := env.at
	if name == "$k" {
		// number of elements a range-over-slice loop has already processed: go/ssa's hidden
		// index phi "rangeindex" starts at -1 and is incremented before each element
		for _, in := range at.Instrs {
			phi, ok := in.(*ssa.Phi)
			if !ok {
				break
			}
			if phi.Comment == "rangeindex" {
				v := fr.vals[phi]
				if env.phiOverride != nil {
					if t, ok := env.phiOverride[phi]; ok {
						v = t
					}
				}
				return bvBin("bvadd", v, BVLit64(1, 64)), types.Typ[types.Int], true
			}
		}
		return nil, nil, false
	}
	// phi in the block itself
	for _, in := range at.Instrs {
		phi, ok := in.(*ssa.Phi)
		if !ok {
			break
		}
		if phi.Comment == name {
			if env.inOld && env.phiEntry != nil {
				if t, ok := env.phiEntry[phi]; ok {
					return t, phi.Type(), true
				}
			}
			if env.phiOverride != nil {
				if t, ok := env.phiOverride[phi]; ok {
					return t, phi.Type(), true
				}
			}
			return fr.vals[phi], phi.Type(), true
		}
	}
	// hidden range index: "$k" = number of elements already processed by a range loop
	var best ssa.Value
	var bestAddr bool
	var bestBlock *ssa.BasicBlock
	consider := func(v ssa.Value, isAddr bool, b *ssa.BasicBlock) {
		if !(b == at || b.Dominates(at)) {
			return
		}
		if b == at {
			// defined in the header itself after the phis: not available at the cut point
			if _, isPhi := v.(*ssa.Phi); !isPhi {
				return
			}
		}
		if bestBlock == nil || bestBlock.Dominates(b) {
			best, bestAddr, bestBlock = v, isAddr, b
		}
	}
	for _, b := range fr.fn.Blocks {
		for _, in := range b.Instrs {
			switch x := in.(type) {
			case *ssa.DebugRef:
				if id := x.Object(); id != nil && id.Name() == name {
					consider(x.X, x.IsAddr, b)
				}
			case *ssa.Phi:
				if x.Comment == name {
					consider(x, false, b)
				}
			}
		}
	}
	if best == nil {
		return nil, nil, false
	}
	if bestAddr {
		a := fr.addrOf(best)
		return fr.fc.load(env.state(), a), a.typ, true
	}
	if phi, ok := best.(*ssa.Phi); ok && env.phiOverride != nil {
		if t, ok := env.phiOverride[phi]; ok {
			return t, phi.Type(), true
		}
	}
	t, ok := fr.vals[best]
	if !ok {
		if _, isC := best.(*ssa.Const); isC {
			return fr.val(best), best.Type(), true
		}
		return nil, nil, false
	}
	return t, best.Type(), true
}
