package main

// Symbolic state: path condition, versioned heap arrays, allocation counter; addresses.

import (
	"fmt"
	"go/types"
	"sort"
	"strings"
)

type State struct {
	pc    *Term
	heap  map[string]*Term
	alloc *Term
}

func (s *State) clone() *State {
	h := make(map[string]*Term, len(s.heap))
	for k, v := range s.heap {
		h[k] = v
	}
	return &State{pc: s.pc, heap: h, alloc: s.alloc}
}

// FuncCtx is the verification context of one top-level function (with everything inlined into it).
type FuncCtx struct {
	eng       *Engine
	fn        string // display name
	heapSorts map[string]Sort
	assumps   []*Term
	obls      []*Obligation
	nfresh    int
	entry     *State
	notes     map[string]bool
	inlined   map[string]bool
	opaque    map[string]bool
	usedCtr   map[string]bool
	trusted   map[string]bool
	localN    int
	siteN     map[string]int
	initMode  bool
	usedConsts map[*Term]bool
	bigWrites  []bigWrite
	closed     map[string]bool
	bigHavocs  []*Term
	safeAssump map[int]bool
	lostHavoc  map[string]bool
}

func (fc *FuncCtx) note(s string) { fc.notes[s] = true }

func (fc *FuncCtx) heapInit(k string, s Sort) *Term {
	if old, ok := fc.heapSorts[k]; ok && old != s {
		panic(fmt.Sprintf("heap class %s used at two sorts: %s and %s", k, old, s))
	}
	if fc.lostHavoc[k] {
		panic(unsupported("heap class " + k + " is read after a havoc whose sort was unknown"))
	}
	fc.heapSorts[k] = s
	h := Const("h0!"+k, s)
	if !fc.closed[k] && fc.entry != nil {
		fc.closed[k] = true
		fc.heapClosure(k, h, fc.entry.alloc)
	}
	return h
}

func (fc *FuncCtx) get(st *State, k string, s Sort) *Term {
	if v, ok := st.heap[k]; ok {
		return v
	}
	return fc.heapInit(k, s)
}

func (fc *FuncCtx) fresh(prefix string, s Sort) *Term {
	fc.nfresh++
	return Const(fmt.Sprintf("%s!%d", sanitize(prefix), fc.nfresh), s)
}

func (fc *FuncCtx) assume(pc, fact *Term) {
	t := Implies(pc, fact)
	if t == True {
		return
	}
	fc.assumps = append(fc.assumps, t)
}

type Obligation struct {
	name    string
	ids     []string
	kind    string
	fn      string
	pc      *Term
	goal    *Term
	nassump int
	clause  *Clause
	expect  string // "unsat" (default, goal must hold) or "sat" (reachability / vacuity)
	descr   string
	narrow  string // optional reduced script tried first (very large queries)
	confirmed string // thorough tier: second solver that also proved it
	params  []*Term // values to report in a model
	pnames  []string
	// results
	status string
	solver string
	secs   float64
	model  map[string]string
	output string
	smt    string
	replayed bool
	plan     *replayPlan
	small    []*Term // optional extra constraints asking for a small (replayable) model
	override []*Term
	parts    []*Term // conjuncts solved as separate queries (one per return statement)
	useOverride bool
}

func (fc *FuncCtx) oblige(name, kind string, ids []string, pc, goal *Term, cl *Clause, descr string) *Obligation {
	o := &Obligation{name: name, kind: kind, ids: ids, fn: fc.fn, pc: pc, goal: goal, nassump: len(fc.assumps), clause: cl, descr: descr, expect: "unsat"}
	fc.obls = append(fc.obls, o)
	return o
}

func (fc *FuncCtx) site(base string) string {
	fc.siteN[base]++
	return fmt.Sprintf("%s.%d", base, fc.siteN[base])
}

// merge combines edge states (mutually exclusive path conditions).
func (fc *FuncCtx) merge(edges []*State) *State {
	if len(edges) == 1 {
		return edges[0].clone()
	}
	var pcs []*Term
	for _, e := range edges {
		pcs = append(pcs, e.pc)
	}
	out := &State{pc: Or(pcs...), heap: map[string]*Term{}}
	keys := map[string]bool{}
	for _, e := range edges {
		for k := range e.heap {
			keys[k] = true
		}
	}
	var ks []string
	for k := range keys {
		ks = append(ks, k)
	}
	sort.Strings(ks)
	for _, k := range ks {
		s := fc.heapSorts[k]
		var vals []*Term
		for _, e := range edges {
			vals = append(vals, fc.get(e, k, s))
		}
		out.heap[k] = mergeVals(pcs, vals)
	}
	var as []*Term
	for _, e := range edges {
		as = append(as, e.alloc)
	}
	out.alloc = mergeVals(pcs, as)
	return out
}

func mergeVals(pcs, vals []*Term) *Term {
	r := vals[len(vals)-1]
	for i := len(vals) - 2; i >= 0; i-- {
		r = Ite(pcs[i], vals[i], r)
	}
	return r
}

// ---------------------------------------------------------------------------------------
// Addresses

type pathStep struct {
	field int
	dt    *DT
	index *Term // array index step (BV64) when dt == nil
	esort Sort
}

type Addr struct {
	kind  string // "local" (scalar heap var), "field", "elem", "cell", "global", "box"
	class string
	csort Sort  // sort of the class variable (array for field/elem/cell, value sort for local/global)
	base  *Term // Int ref (field/cell/box) or arr ref (elem)
	idx   *Term // elem: absolute BV64 index
	path  []pathStep
	typ   types.Type // pointee type
}

func (a *Addr) extend(st pathStep, t types.Type) *Addr {
	np := make([]pathStep, len(a.path)+1)
	copy(np, a.path)
	np[len(a.path)] = st
	return &Addr{kind: a.kind, class: a.class, csort: a.csort, base: a.base, idx: a.idx, path: np, typ: t}
}

func (fc *FuncCtx) rootLoad(st *State, a *Addr) *Term {
	h := fc.get(st, a.class, a.csort)
	switch a.kind {
	case "local", "global":
		return h
	case "field", "cell", "box":
		return Select(h, a.base)
	case "elem":
		return Select(Select(h, a.base), a.idx)
	}
	panic("bad addr kind " + a.kind)
}

func (fc *FuncCtx) rootStore(st *State, a *Addr, v *Term) {
	h := fc.get(st, a.class, a.csort)
	switch a.kind {
	case "local", "global":
		st.heap[a.class] = v
	case "field", "cell", "box":
		st.heap[a.class] = Store(h, a.base, v)
	case "elem":
		row := Select(h, a.base)
		st.heap[a.class] = Store(h, a.base, Store(row, a.idx, v))
	default:
		panic("bad addr kind " + a.kind)
	}
}

func applyPath(v *Term, path []pathStep) *Term {
	for _, p := range path {
		if p.dt != nil {
			v = SelField(p.dt, p.field, v)
		} else {
			v = Select(v, p.index)
		}
	}
	return v
}

func updatePath(root *Term, path []pathStep, v *Term) *Term {
	if len(path) == 0 {
		return v
	}
	p := path[0]
	if p.dt != nil {
		fs := make([]*Term, len(p.dt.fields))
		for i := range fs {
			fs[i] = SelField(p.dt, i, root)
		}
		fs[p.field] = updatePath(fs[p.field], path[1:], v)
		return MkStruct(p.dt, fs)
	}
	inner := Select(root, p.index)
	return Store(root, p.index, updatePath(inner, path[1:], v))
}

func (fc *FuncCtx) load(st *State, a *Addr) *Term {
	// whole-struct load through a pointer to a heap struct: assemble from field classes
	if a.kind == "structref" {
		return fc.loadStruct(st, a.base, a.typ)
	}
	return applyPath(fc.rootLoad(st, a), a.path)
}

func (fc *FuncCtx) store(st *State, a *Addr, v *Term) {
	if a.kind == "structref" {
		fc.storeStruct(st, a.base, a.typ, v)
		return
	}
	if len(a.path) == 0 {
		fc.rootStore(st, a, v)
		return
	}
	root := fc.rootLoad(st, a)
	fc.rootStore(st, a, updatePath(root, a.path, v))
}

func fieldClass(t types.Type, i int) string {
	st := t.Underlying().(*types.Struct)
	k := "F:" + typeKey(t) + "." + st.Field(i).Name()
	regSort(k, func() Sort { return SArr(SRef, SortOf(st.Field(i).Type())) })
	return k
}

func (fc *FuncCtx) fieldAddr(base *Term, structT types.Type, i int) *Addr {
	st := structT.Underlying().(*types.Struct)
	ft := st.Field(i).Type()
	noteClass(fieldClass(structT, i), ft)
	return &Addr{kind: "field", class: fieldClass(structT, i), csort: SArr(SRef, SortOf(ft)), base: base, typ: ft}
}

func (fc *FuncCtx) loadStruct(st *State, ref *Term, t types.Type) *Term {
	s := t.Underlying().(*types.Struct)
	dt := TR.structDT(t)
	fs := make([]*Term, s.NumFields())
	for i := range fs {
		fs[i] = fc.load(st, fc.fieldAddr(ref, t, i))
	}
	return MkStruct(dt, fs)
}

func (fc *FuncCtx) storeStruct(st *State, ref *Term, t types.Type, v *Term) {
	s := t.Underlying().(*types.Struct)
	dt := TR.structDT(t)
	for i := 0; i < s.NumFields(); i++ {
		fc.store(st, fc.fieldAddr(ref, t, i), SelField(dt, i, v))
	}
}

// derefAddr gives the address designated by a pointer *value* (an Int ref) of pointer type pt.
func (fc *FuncCtx) derefAddr(ref *Term, pointee types.Type) *Addr {
	switch u := pointee.Underlying().(type) {
	case *types.Struct:
		if isBigInt(pointee) {
			return &Addr{kind: "cell", class: "big", csort: SArr(SRef, SInt), base: ref, typ: pointee}
		}
		return &Addr{kind: "structref", base: ref, typ: pointee}
	case *types.Array:
		_ = u
		// the cell of an array pointer is a row of the element class
		return &Addr{kind: "cell", class: elemClass(u.Elem()), csort: SArr(SRef, SArr(SBV64, SortOf(u.Elem()))), base: ref, typ: pointee}
	}
	noteClass("C:"+typeKey(pointee), pointee)
	regSort("C:"+typeKey(pointee), func() Sort { return SArr(SRef, SortOf(pointee)) })
	return &Addr{kind: "cell", class: "C:" + typeKey(pointee), csort: SArr(SRef, SortOf(pointee)), base: ref, typ: pointee}
}

func elemClass(elem types.Type) string {
	k := "E:" + typeKey(elem)
	noteClass(k, elem)
	regSort(k, func() Sort { return elemClassSort(elem) })
	return k
}

func elemClassSort(elem types.Type) Sort {
	return SArr(SRef, SArr(SBV64, SortOf(elem)))
}

// addrTerm gives an Int identity for an address (used for mutexes and escaping interior pointers).
func addrTerm(a *Addr) *Term {
	if a.kind == "cell" || a.kind == "structref" || a.kind == "box" {
		if len(a.path) == 0 {
			return a.base
		}
	}
	name := "ptr!" + sanitize(a.class)
	for _, p := range a.path {
		if p.dt != nil {
			name += fmt.Sprintf(".%d", p.field)
		} else {
			name += ".ix"
		}
	}
	var args []*Term
	var sorts []Sort
	if a.base != nil {
		args = append(args, a.base)
		sorts = append(sorts, SRef)
	}
	if a.idx != nil {
		args = append(args, a.idx)
		sorts = append(sorts, SBV64)
	}
	if len(args) == 0 {
		return Const(name, SRef)
	}
	Declare(name, sorts, SRef)
	return App(name, SRef, args...)
}

func classIsLocal(k string) bool { return strings.HasPrefix(k, "L#") }
