package main

// Effect obligations ("protects" clauses): a guard predicate over method names must hold for
// every method of every type registered as a service whose inferred effect includes a ghost
// resource.
//
//	//@ func isProtectedMethodName
//	//@   protects[C18] signs via API.Service
//
// means: for every type T stored (as an interface) into the field Service of the struct type API
// of this package anywhere in the loaded program, and every exported method M in T's method set
// whose transitive inferred frame contains the ghost `signs` (the effect declared by `assigns
// signs` on the functions that own the resource), the real guard function, run on the literal
// name "M", returns true. The clause expands into one ordinary postcondition per such method
//
//	ensures[C18] @protects.T.M  <param> == "M" ==> result
//
// so a failure names the method. Soundness rests on the frame inference being an
// over-approximation of the call graph (static calls, all implementations for interface calls,
// address-taken functions of the same signature for func values); reflection-driven calls are not
// seen (stated in the evidence).

import (
	"fmt"
	"go/types"
	"sort"
	"strings"

	"golang.org/x/tools/go/ssa"
)

type protectsDecl struct {
	ids    []string
	ghost  string
	typ    string // struct type name in the contract's package
	field  string
	line   int
	text   string
}

type effectReport struct {
	Guard    string   `json:"guard"`
	Ghost    string   `json:"ghost"`
	Services []string `json:"service_types"`
	Methods  int      `json:"methods_examined"`
	With     []string `json:"methods_with_effect"`
}

func parseProtects(t string, line int) (*protectsDecl, error) {
	// protects[IDs] <ghost> via <Type>.<Field>
	rest := strings.TrimPrefix(t, "protects")
	var ids []string
	if strings.HasPrefix(rest, "[") {
		j := strings.Index(rest, "]")
		if j < 0 {
			return nil, fmt.Errorf("protects: missing ]")
		}
		ids = parseIDs(rest[:j+1])
		rest = rest[j+1:]
	}
	f := strings.Fields(rest)
	if len(f) != 3 || f[1] != "via" || !strings.Contains(f[2], ".") {
		return nil, fmt.Errorf("protects: expected 'protects[IDs] <ghost> via <Type>.<Field>'")
	}
	k := strings.LastIndex(f[2], ".")
	return &protectsDecl{ids: ids, ghost: f[0], typ: f[2][:k], field: f[2][k+1:], line: line, text: t}, nil
}

// serviceTypes: concrete types stored into <pkg>.<typ>.<field> anywhere in the module.
func (eng *Engine) serviceTypes(pkgPath, typ, field string) []types.Type {
	seen := map[string]types.Type{}
	for f := range eng.allFuncs {
		if !eng.inModule(f) {
			continue
		}
		for _, b := range f.Blocks {
			for _, in := range b.Instrs {
				st, ok := in.(*ssa.Store)
				if !ok {
					continue
				}
				fa, ok := st.Addr.(*ssa.FieldAddr)
				if !ok {
					continue
				}
				pt, ok := fa.X.Type().Underlying().(*types.Pointer)
				if !ok {
					continue
				}
				named, ok := pt.Elem().(*types.Named)
				if !ok || named.Obj().Pkg() == nil || named.Obj().Pkg().Path() != pkgPath || named.Obj().Name() != typ {
					continue
				}
				sstruct, ok := named.Underlying().(*types.Struct)
				if !ok || fa.Field >= sstruct.NumFields() || sstruct.Field(fa.Field).Name() != field {
					continue
				}
				var v ssa.Value = st.Val
				for {
					if ci, ok := v.(*ssa.ChangeInterface); ok {
						v = ci.X
						continue
					}
					break
				}
				mi, ok := v.(*ssa.MakeInterface)
				if !ok {
					// the stored value is already an interface (unknown dynamic type)
					seen["?"+v.Type().String()] = nil
					continue
				}
				seen[mi.X.Type().String()] = mi.X.Type()
			}
		}
	}
	var keys []string
	for k := range seen {
		keys = append(keys, k)
	}
	sort.Strings(keys)
	var out []types.Type
	for _, k := range keys {
		out = append(out, seen[k])
	}
	return out
}

// expandProtects turns every protects clause into postconditions of its guard function.
func (eng *Engine) expandProtects(id string) ([]*effectReport, error) {
	var reports []*effectReport
	any := false
	relevant := func(c *Contract) bool {
		for _, pd := range c.protects {
			if hasID(pd.ids, id) {
				return eng.findFunction(c) != nil
			}
		}
		return false
	}
	for _, c := range eng.contracts.list {
		if relevant(c) {
			any = true
		}
	}
	if !any {
		return nil, nil
	}
	// effects also flow through goroutines the methods start; recompute the frames with that
	eng.frames.followGo = true
	eng.frames.direct = map[*ssa.Function]map[string]bool{}
	eng.frames.trans = map[*ssa.Function]map[string]bool{}
	eng.frames.callees = map[*ssa.Function][]*ssa.Function{}
	for _, c := range eng.contracts.list {
		if !relevant(c) {
			continue
		}
		fn := eng.findFunction(c)
		if fn == nil {
			continue // package not loaded for this property
		}
		if len(fn.Params) != 1 {
			return nil, fmt.Errorf("%s: protects needs a guard with one string parameter", c.key)
		}
		param := fn.Params[0].Name()
		for _, pd := range c.protects {
			if !hasID(pd.ids, id) {
				continue
			}
			rep := &effectReport{Guard: c.pkgPath + "." + c.key, Ghost: pd.ghost}
			if eng.contracts.ghosts[pd.ghost] == nil {
				return nil, fmt.Errorf("%s: protects: unknown ghost %s", c.key, pd.ghost)
			}
			svc := eng.serviceTypes(c.pkgPath, pd.typ, pd.field)
			if len(svc) == 0 {
				return nil, fmt.Errorf("%s: protects: nothing is ever stored into %s.%s", c.key, pd.typ, pd.field)
			}
			for _, T := range svc {
				if T == nil {
					rep.Services = append(rep.Services, "(interface value of unknown dynamic type)")
					continue
				}
				rep.Services = append(rep.Services, T.String())
				ms := eng.prog.MethodSets.MethodSet(T)
				for i := 0; i < ms.Len(); i++ {
					sel := ms.At(i)
					if !sel.Obj().Exported() {
						continue
					}
					mf := eng.prog.MethodValue(sel)
					if mf == nil {
						continue
					}
					rep.Methods++
					ws := eng.frames.of(mf, nil)
					if !ws["ghost:"+pd.ghost] {
						continue
					}
					tn := T.String()
					if k := strings.LastIndex(tn, "/"); k >= 0 {
						tn = tn[k+1:]
					}
					tn = strings.TrimPrefix(tn, "*")
					label := "protects." + tn + "." + sel.Obj().Name()
					rep.With = append(rep.With, tn+"."+sel.Obj().Name())
					dup := false
					for _, e := range c.ensures {
						if e.label == label {
							dup = true
						}
					}
					if dup {
						continue
					}
					text := fmt.Sprintf("%s == %q ==> result", param, sel.Obj().Name())
					ex, err := ParseExpr(text)
					if err != nil {
						return nil, err
					}
					c.ensures = append(c.ensures, &Clause{kind: "ensures", ids: pd.ids, label: label, text: text, expr: ex, line: pd.line})
				}
			}
			sort.Strings(rep.With)
			reports = append(reports, rep)
		}
	}
	return reports, nil
}
