package main

// Flow-sensitive privacy of heap allocations: an object allocated by the activation under
// execution whose address has not yet been handed to anything (call argument, stored value,
// interface, closure, phi, return) cannot be reached by a callee, so a call's havoc of the heap
// classes it lives in leaves its contents unchanged. Escape is judged per program point:
// an allocation is private at instruction `at` when no escaping use of its address (or of a
// derived address / slice of it) can execute before `at`.

import (
	"go/types"

	"golang.org/x/tools/go/ssa"
)

type escapeInfo struct {
	escapes []ssa.Instruction // uses that hand the address (or a derived one) to someone else
	stores  []ssa.Instruction // stores through the address or a derived address
}

type privInfo struct {
	reach map[*ssa.BasicBlock]map[*ssa.BasicBlock]bool // path of length >= 1
	esc   map[*ssa.Alloc]*escapeInfo
}

func (eng *Engine) privOf(fn *ssa.Function) *privInfo {
	if eng.privCache == nil {
		eng.privCache = map[*ssa.Function]*privInfo{}
	}
	if p, ok := eng.privCache[fn]; ok {
		return p
	}
	p := &privInfo{reach: map[*ssa.BasicBlock]map[*ssa.BasicBlock]bool{}, esc: map[*ssa.Alloc]*escapeInfo{}}
	for _, b := range fn.Blocks {
		seen := map[*ssa.BasicBlock]bool{}
		var stack []*ssa.BasicBlock
		stack = append(stack, b.Succs...)
		for len(stack) > 0 {
			c := stack[len(stack)-1]
			stack = stack[:len(stack)-1]
			if seen[c] {
				continue
			}
			seen[c] = true
			stack = append(stack, c.Succs...)
		}
		p.reach[b] = seen
	}
	eng.privCache[fn] = p
	return p
}

func (p *privInfo) escapeOf(a *ssa.Alloc) *escapeInfo {
	if e, ok := p.esc[a]; ok {
		return e
	}
	e := &escapeInfo{}
	p.esc[a] = e
	seen := map[ssa.Value]bool{}
	work := []ssa.Value{a}
	for len(work) > 0 {
		v := work[len(work)-1]
		work = work[:len(work)-1]
		if seen[v] {
			continue
		}
		seen[v] = true
		refs := v.Referrers()
		if refs == nil {
			continue
		}
		for _, r := range *refs {
			switch x := r.(type) {
			case *ssa.DebugRef:
			case *ssa.UnOp:
				// load through the address: the loaded value is not the address
			case *ssa.Store:
				if x.Val == v {
					e.escapes = append(e.escapes, x)
				} else {
					e.stores = append(e.stores, x)
				}
			case *ssa.FieldAddr:
				work = append(work, x)
			case *ssa.IndexAddr:
				work = append(work, x)
			case *ssa.Slice:
				work = append(work, x)
			default:
				e.escapes = append(e.escapes, r)
			}
		}
	}
	return e
}

func instrIndex(in ssa.Instruction) int {
	for i, x := range in.Block().Instrs {
		if x == in {
			return i
		}
	}
	return -1
}

// mayPrecede: e can execute before at (on some path).
func (p *privInfo) mayPrecede(e, at ssa.Instruction) bool {
	eb, ab := e.Block(), at.Block()
	if p.reach[eb][ab] {
		return true
	}
	return eb == ab && instrIndex(e) < instrIndex(at)
}

// privateAt: the object of a is unreachable for anyone but this activation at instruction at.
func (p *privInfo) privateAt(a *ssa.Alloc, at ssa.Instruction) bool {
	for _, e := range p.escapeOf(a).escapes {
		if e == at {
			return false
		}
		if p.mayPrecede(e, at) {
			return false
		}
	}
	return true
}

// restorePrivate re-installs, after a havoc at instruction at, the contents of the heap
// allocations of this activation that are still private there. body, when non-nil, is the
// loop being cut: allocations written inside it are left to the loop havoc.
func (fr *Frame) restorePrivate(before, after *State, at ssa.Instruction, body map[*ssa.BasicBlock]bool) {
	if at == nil || fr.fc.initMode {
		return
	}
	fc := fr.fc
	p := fc.eng.privOf(fr.fn)
	for _, b := range fr.fn.Blocks {
		for _, in := range b.Instrs {
			a, ok := in.(*ssa.Alloc)
			if !ok || !a.Heap {
				continue
			}
			ref, done := fr.vals[a]
			if !done || ref == nil {
				continue
			}
			if _, local := fr.addrs[a]; local {
				continue
			}
			if ssa.Instruction(a) != at && !p.mayPrecede(a, at) {
				continue // not yet allocated at this point
			}
			if body != nil && body[a.Block()] {
				continue // allocated inside the loop: a different object each iteration
			}
			if !p.privateAt(a, at) {
				continue
			}
			if body != nil {
				written := false
				for _, s := range p.escapeOf(a).stores {
					if body[s.Block()] {
						written = true
					}
				}
				if written {
					continue
				}
			}
			t := a.Type().(*types.Pointer).Elem()
			if isBigInt(t) {
				continue
			}
			ws := map[string]bool{}
			fc.eng.frames.pointeeClasses(t, ws)
			for k := range ws {
				hb, okb := before.heap[k]
				ha, oka := after.heap[k]
				if !okb || !oka || hb == ha {
					continue
				}
				after.heap[k] = Store(ha, ref, Select(hb, ref))
			}
		}
	}
}
