package main

// Spec library: property-level spec functions, lemmas and audited axioms written directly in
// SMT-LIB (files /verif/specs/*.smt2). Only the forms an obligation needs are emitted.

import (
	"fmt"
	"os"
	"path/filepath"
	"sort"
	"strings"
)

type SpecForm struct {
	kind   string // define-fun, define-fun-rec, declare-fun, assert, declare-sort, declare-datatypes
	name   string
	args   []Sort
	res    Sort
	text   string
	syms   map[string]bool
	file   string
	idx    int
	axname string // for asserts: (! ... :named x) name if present
}

type SpecLib struct {
	forms  []*SpecForm
	byName map[string]*SpecForm
	lemmas []*Lemma
}

type Lemma struct {
	name string
	ids  []string // property ids
	text string   // SMT term (Bool) to be proved valid
	file string
	uses []string // named axioms explicitly enabled (";; use: a b")
}

func LoadSpecs(dir string) (*SpecLib, error) {
	lib := &SpecLib{byName: map[string]*SpecForm{}}
	files, _ := filepath.Glob(filepath.Join(dir, "*.smt2"))
	sort.Strings(files)
	for _, f := range files {
		b, err := os.ReadFile(f)
		if err != nil {
			return nil, err
		}
		if err := lib.parse(filepath.Base(f), string(b)); err != nil {
			return nil, fmt.Errorf("%s: %v", f, err)
		}
	}
	return lib, nil
}

// splitForms splits top-level s-expressions, dropping comments. Lines beginning with
// ";;@lemma[ids] name" introduce the next (assert-free) term as a lemma goal.
func (lib *SpecLib) parse(file, src string) error {
	i := 0
	n := len(src)
	var pendingLemma *Lemma
	for i < n {
		c := src[i]
		if c == ' ' || c == '\n' || c == '\t' || c == '\r' {
			i++
			continue
		}
		if c == ';' {
			j := strings.IndexByte(src[i:], '\n')
			if j < 0 {
				j = n - i
			}
			line := strings.TrimSpace(src[i : i+j])
			if strings.HasPrefix(line, ";;@lemma") {
				rest := strings.TrimSpace(strings.TrimPrefix(line, ";;@lemma"))
				lm := &Lemma{file: file}
				if strings.HasPrefix(rest, "[") {
					k := strings.Index(rest, "]")
					for _, id := range strings.Split(rest[1:k], ",") {
						lm.ids = append(lm.ids, strings.TrimSpace(id))
					}
					rest = strings.TrimSpace(rest[k+1:])
				}
				lm.name = rest
				pendingLemma = lm
			}
			i += j
			continue
		}
		if c != '(' {
			return fmt.Errorf("unexpected %q at offset %d", c, i)
		}
		depth := 0
		j := i
		inStr := false
		for j < n {
			ch := src[j]
			if inStr {
				if ch == '"' {
					inStr = false
				}
			} else if ch == '"' {
				inStr = true
			} else if ch == ';' {
				for j < n && src[j] != '\n' {
					j++
				}
				continue
			} else if ch == '(' {
				depth++
			} else if ch == ')' {
				depth--
				if depth == 0 {
					break
				}
			}
			j++
		}
		if depth != 0 {
			return fmt.Errorf("unbalanced form at offset %d", i)
		}
		text := src[i : j+1]
		i = j + 1
		if pendingLemma != nil {
			pendingLemma.text = stripComments(text)
			lib.lemmas = append(lib.lemmas, pendingLemma)
			pendingLemma = nil
			continue
		}
		f := &SpecForm{text: stripComments(text), file: file, idx: len(lib.forms)}
		toks := sexpTokens(f.text)
		if len(toks) < 2 {
			continue
		}
		f.kind = toks[1]
		f.syms = map[string]bool{}
		for _, t := range toks {
			f.syms[t] = true
		}
		switch f.kind {
		case "define-fun", "define-fun-rec", "declare-fun", "declare-const":
			f.name = toks[2]
			sx, err := parseSexp(f.text)
			if err != nil {
				return err
			}
			if f.kind == "declare-const" {
				f.res = Sort(sx.list[2].String())
			} else {
				for _, a := range sx.list[2].list {
					if f.kind == "declare-fun" {
						f.args = append(f.args, Sort(a.String()))
					} else {
						f.args = append(f.args, Sort(a.list[1].String()))
					}
				}
				f.res = Sort(sx.list[3].String())
			}
			lib.byName[f.name] = f
		case "assert":
			f.name = fmt.Sprintf("axiom@%s#%d", file, f.idx)
		case "declare-sort", "declare-datatypes":
			f.name = toks[2]
		default:
			return fmt.Errorf("unsupported top-level form %q", f.kind)
		}
		lib.forms = append(lib.forms, f)
	}
	return nil
}

func stripComments(s string) string {
	var sb strings.Builder
	for _, line := range strings.Split(s, "\n") {
		if k := strings.Index(line, ";"); k >= 0 {
			line = line[:k]
		}
		sb.WriteString(line)
		sb.WriteString("\n")
	}
	return strings.TrimSpace(sb.String())
}

func sexpTokens(s string) []string {
	var out []string
	cur := strings.Builder{}
	flush := func() {
		if cur.Len() > 0 {
			out = append(out, cur.String())
			cur.Reset()
		}
	}
	for i := 0; i < len(s); i++ {
		c := s[i]
		switch c {
		case '(', ')':
			flush()
			out = append(out, string(c))
		case ' ', '\n', '\t', '\r':
			flush()
		default:
			cur.WriteByte(c)
		}
	}
	flush()
	return out
}

type sexp struct {
	atom string
	list []*sexp
	isL  bool
}

func (s *sexp) String() string {
	if !s.isL {
		return s.atom
	}
	var parts []string
	for _, x := range s.list {
		parts = append(parts, x.String())
	}
	return "(" + strings.Join(parts, " ") + ")"
}

func parseSexp(s string) (*sexp, error) {
	toks := sexpTokens(s)
	p := 0
	var rec func() (*sexp, error)
	rec = func() (*sexp, error) {
		if p >= len(toks) {
			return nil, fmt.Errorf("unexpected end")
		}
		t := toks[p]
		p++
		if t == "(" {
			l := &sexp{isL: true}
			for p < len(toks) && toks[p] != ")" {
				x, err := rec()
				if err != nil {
					return nil, err
				}
				l.list = append(l.list, x)
			}
			p++
			return l, nil
		}
		return &sexp{atom: t}, nil
	}
	return rec()
}

// Render emits every form transitively needed by the used function names.
func (lib *SpecLib) Render(usedFns map[string]bool) string {
	need := map[int]bool{}
	var work []string
	for n := range usedFns {
		work = append(work, n)
	}
	seenName := map[string]bool{}
	for len(work) > 0 {
		n := work[len(work)-1]
		work = work[:len(work)-1]
		if seenName[n] {
			continue
		}
		seenName[n] = true
		f := lib.byName[n]
		if f == nil {
			continue
		}
		need[f.idx] = true
		for s := range f.syms {
			if !seenName[s] && lib.byName[s] != nil {
				work = append(work, s)
			}
		}
	}
	// axioms: include when every spec symbol they mention is needed (so they add no new symbols),
	// iterate to fixed point for sort declarations
	// axioms: an axiom is emitted as soon as one of the declared (uninterpreted) symbols it
	// constrains is needed; the other symbols it mentions are then declared too (fixed point)
	markDeps := func(f *SpecForm) {
		var work []string
		for s := range f.syms {
			work = append(work, s)
		}
		for len(work) > 0 {
			n := work[len(work)-1]
			work = work[:len(work)-1]
			g := lib.byName[n]
			if g == nil || need[g.idx] {
				continue
			}
			need[g.idx] = true
			for s := range g.syms {
				work = append(work, s)
			}
		}
	}
	for changed := true; changed; {
		changed = false
		for _, f := range lib.forms {
			if f.kind != "assert" || need[f.idx] {
				continue
			}
			hit := false
			for s := range f.syms {
				if g := lib.byName[s]; g != nil && need[g.idx] && (g.kind == "declare-fun" || g.kind == "declare-const") {
					hit = true
				}
			}
			if hit {
				need[f.idx] = true
				markDeps(f)
				changed = true
			}
		}
	}
	var sb strings.Builder
	for _, f := range lib.forms {
		if f.kind == "declare-sort" || f.kind == "declare-datatypes" {
			// emitted if any needed form mentions it
			for _, g := range lib.forms {
				if need[g.idx] && g.syms[f.name] {
					need[f.idx] = true
				}
			}
		}
	}
	for _, f := range lib.forms {
		if need[f.idx] {
			sb.WriteString(f.text)
			sb.WriteString("\n")
		}
	}
	return sb.String()
}
