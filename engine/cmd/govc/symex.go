package main

// Forward symbolic execution of go/ssa functions into SMT terms with state merging.

import (
	"fmt"
	"go/constant"
	"go/token"
	"go/types"
	"math/big"
	"sort"
	"strings"

	"golang.org/x/tools/go/ssa"
)

type deferred struct {
	guard *Term
	call  *ssa.CallCommon
	instr ssa.Instruction
}

type Frame struct {
	fc      *FuncCtx
	fn      *ssa.Function
	vals    map[ssa.Value]*Term
	tuples  map[ssa.Value][]*Term
	addrs   map[ssa.Value]*Addr
	depth   int
	prefix  string
	defers  []deferred
	ctr     *Contract // contract being verified (top frame only)
	loops   []*loopInfo
	rets    []retEdge
	isTop   bool
	binds   []*Term // closure bindings (free variables)
	ranges  map[ssa.Value]*rangeState
	recvOld *State
	cutPhi  map[*ssa.Phi]*Term
	cur     ssa.Instruction // instruction being executed (for flow-sensitive privacy)
}

type retEdge struct {
	st      *State
	results []*Term
}

type rangeState struct {
	mapRef *Term
	seen   string // local class holding the visited set
	kt, vt types.Type
	isStr  bool
}

type loopInfo struct {
	header  *ssa.BasicBlock
	body    map[*ssa.BasicBlock]bool
	latches []*ssa.BasicBlock
	ordinal int
	pos     token.Pos
}

const maxInlineDepth = 4

func (fr *Frame) val(v ssa.Value) *Term {
	switch x := v.(type) {
	case *ssa.Const:
		return fr.constTerm(x)
	case *ssa.Function:
		return fr.fc.eng.funcRef(x)
	case *ssa.Builtin:
		panic(unsupported("builtin as value"))
	case *ssa.Global:
		return addrTerm(fr.globalAddr(x))
	case *ssa.FreeVar:
		for i, fv := range fr.fn.FreeVars {
			if fv == x {
				if i < len(fr.binds) {
					return fr.binds[i]
				}
			}
		}
		if t, ok := fr.vals[v]; ok {
			return t
		}
		// unknown binding (function verified standalone): a fixed symbolic value
		t := Const("freevar!"+sanitize(fr.fn.Name()+"."+x.Name()), SortOf(x.Type()))
		fr.vals[v] = t
		return t
	}
	if t, ok := fr.vals[v]; ok {
		return t
	}
	if a, ok := fr.addrs[v]; ok {
		// an address used as a value: escapes as an opaque pointer
		fr.fc.note("interior pointer used as value: " + a.class)
		return addrTerm(a)
	}
	panic(fmt.Sprintf("no value for %s = %s in %s", v.Name(), v.String(), fr.fn.Name()))
}

func (fr *Frame) constTerm(c *ssa.Const) *Term {
	t := c.Type()
	if c.Value == nil {
		return ZeroOf(t)
	}
	switch u := t.Underlying().(type) {
	case *types.Basic:
		if n, _ := intBits(u); n > 0 {
			v, ok := constant.Val(constant.ToInt(c.Value)).(*big.Int)
			if !ok {
				i64, _ := constant.Int64Val(constant.ToInt(c.Value))
				v = big.NewInt(i64)
				if u64, ok2 := constant.Uint64Val(constant.ToInt(c.Value)); ok2 && i64 < 0 == false {
					v = new(big.Int).SetUint64(u64)
				}
			}
			return BVLit(v, n)
		}
		switch u.Kind() {
		case types.Bool, types.UntypedBool:
			return BoolLit(constant.BoolVal(c.Value))
		case types.String, types.UntypedString:
			return StrLit(constant.StringVal(c.Value))
		case types.Float32, types.Float64, types.UntypedFloat:
			name := "f64lit!" + sanitize(c.Value.ExactString())
			return Const(name, SF64)
		}
	}
	panic(unsupported("constant of type " + t.String()))
}

func (fr *Frame) globalAddr(g *ssa.Global) *Addr {
	pt := g.Type().(*types.Pointer).Elem()
	key := "G:" + g.Pkg.Pkg.Path() + "." + g.Name()
	if st, ok := pt.Underlying().(*types.Struct); ok && !isBigInt(pt) {
		_ = st
		// struct-valued global: one scalar heap variable holding the datatype value
	}
	return &Addr{kind: "global", class: key, csort: SortOf(pt), typ: pt}
}

// addrOf returns the address designated by pointer-typed SSA value v.
func (fr *Frame) addrOf(v ssa.Value) *Addr {
	if a, ok := fr.addrs[v]; ok {
		return a
	}
	if g, ok := v.(*ssa.Global); ok {
		return fr.globalAddr(g)
	}
	pt, ok := v.Type().Underlying().(*types.Pointer)
	if !ok {
		panic(unsupported("address of non-pointer " + v.Type().String()))
	}
	return fr.fc.derefAddr(fr.val(v), pt.Elem())
}

// ---------------------------------------------------------------------------------------

func (eng *Engine) funcRef(f *ssa.Function) *Term {
	id := eng.funcID(f)
	return IntLit64(int64(id))
}

func (eng *Engine) funcID(f *ssa.Function) int {
	if id, ok := eng.funcIDs[f]; ok {
		return id
	}
	id := 1000000 + len(eng.funcIDs)
	eng.funcIDs[f] = id
	return id
}

// computeLoops finds natural loops (back edge u->h where h dominates u), ordered by source position.
func computeLoops(fn *ssa.Function) []*loopInfo {
	byHeader := map[*ssa.BasicBlock]*loopInfo{}
	var out []*loopInfo
	for _, b := range fn.Blocks {
		for _, s := range b.Succs {
			if s.Dominates(b) {
				li := byHeader[s]
				if li == nil {
					li = &loopInfo{header: s, body: map[*ssa.BasicBlock]bool{s: true}}
					byHeader[s] = li
					out = append(out, li)
				}
				li.latches = append(li.latches, b)
				// collect body: nodes reaching b without passing through s
				var stack []*ssa.BasicBlock
				if !li.body[b] {
					li.body[b] = true
					stack = append(stack, b)
				}
				for len(stack) > 0 {
					n := stack[len(stack)-1]
					stack = stack[:len(stack)-1]
					for _, p := range n.Preds {
						if !li.body[p] {
							li.body[p] = true
							stack = append(stack, p)
						}
					}
				}
			}
		}
	}
	// source order: position of the first instruction with a valid pos in header or by block index
	for _, li := range out {
		li.pos = loopPos(li)
	}
	sort.SliceStable(out, func(i, j int) bool {
		if out[i].pos != out[j].pos {
			return out[i].pos < out[j].pos
		}
		return out[i].header.Index < out[j].header.Index
	})
	for i, li := range out {
		li.ordinal = i + 1
	}
	return out
}

func loopPos(li *loopInfo) token.Pos {
	// go/ssa names loop blocks "for.loop", "rangeindex.loop", "rangeiter.loop"; the header's
	// comment is not positioned, so take the smallest valid instruction position in the body.
	var best token.Pos
	for b := range li.body {
		for _, in := range b.Instrs {
			if p := in.Pos(); p.IsValid() && (best == 0 || p < best) {
				best = p
			}
		}
	}
	return best
}

func rpo(fn *ssa.Function) []*ssa.BasicBlock {
	seen := map[*ssa.BasicBlock]bool{}
	var post []*ssa.BasicBlock
	var dfs func(b *ssa.BasicBlock)
	dfs = func(b *ssa.BasicBlock) {
		seen[b] = true
		for _, s := range b.Succs {
			if s.Dominates(b) {
				continue // back edge
			}
			if !seen[s] {
				dfs(s)
			}
		}
		post = append(post, b)
	}
	dfs(fn.Blocks[0])
	if fn.Recover != nil && !seen[fn.Recover] {
		// recover block is only entered after a recovered panic; not executed here
	}
	for i, j := 0, len(post)-1; i < j; i, j = i+1, j-1 {
		post[i], post[j] = post[j], post[i]
	}
	return post
}

// exec runs the frame's function from state st0; returns merged exit state and results.
func (fr *Frame) exec(st0 *State) (*State, []*Term) {
	fn := fr.fn
	if len(fn.Blocks) == 0 {
		panic(unsupported("function without body: " + fn.String()))
	}
	fc := fr.fc
	fr.loops = computeLoops(fn)
	headerOf := map[*ssa.BasicBlock]*loopInfo{}
	for _, li := range fr.loops {
		headerOf[li.header] = li
	}
	out := map[*ssa.BasicBlock]*State{}      // state at end of block (before terminator edges)
	edgeCond := map[[2]int]*Term{}            // (from,to) -> condition
	order := rpo(fn)
	for _, b := range order {
		var st *State
		if b == fn.Blocks[0] {
			st = st0.clone()
		} else {
			// collect forward edges
			var edges []*State
			var preds []*ssa.BasicBlock
			for _, p := range b.Preds {
				if b.Dominates(p) {
					continue // back edge, handled at the latch
				}
				ps, ok := out[p]
				if !ok {
					continue // unreachable predecessor
				}
				es := ps.clone()
				c := edgeCond[[2]int{p.Index, b.Index}]
				if c == nil {
					c = True
				}
				es.pc = And(ps.pc, c)
				edges = append(edges, es)
				preds = append(preds, p)
			}
			if len(edges) == 0 {
				continue
			}
			if li := headerOf[b]; li != nil {
				st = fr.enterLoop(li, edges, preds)
			} else {
				st = fc.merge(edges)
				// phis
				var pcs []*Term
				for _, e := range edges {
					pcs = append(pcs, e.pc)
				}
				for _, in := range b.Instrs {
					phi, ok := in.(*ssa.Phi)
					if !ok {
						break
					}
					var vs []*Term
					for _, p := range preds {
						vs = append(vs, fr.phiIncoming(phi, b, p))
					}
					fr.vals[phi] = mergeVals(pcs, vs)
				}
			}
		}
		// execute instructions
		for _, in := range b.Instrs {
			if _, ok := in.(*ssa.Phi); ok {
				continue
			}
			if st.pc == False {
				// dead code: still need values defined for later merges; give defaults lazily
			}
			fr.step(st, in, edgeCond)
		}
		out[b] = st
		// back edges from this block
		for _, s := range b.Succs {
			if s.Dominates(b) {
				if li := headerOf[s]; li != nil {
					es := st.clone()
					c := edgeCond[[2]int{b.Index, s.Index}]
					if c == nil {
						c = True
					}
					es.pc = And(st.pc, c)
					fr.closeLoop(li, es, b)
				}
			}
		}
	}
	// merge returns
	if len(fr.rets) == 0 {
		return &State{pc: False, heap: map[string]*Term{}, alloc: st0.alloc}, nil
	}
	var edges []*State
	var pcs []*Term
	for _, r := range fr.rets {
		edges = append(edges, r.st)
		pcs = append(pcs, r.st.pc)
	}
	exit := fc.merge(edges)
	var results []*Term
	n := len(fr.rets[0].results)
	for i := 0; i < n; i++ {
		var vs []*Term
		for _, r := range fr.rets {
			vs = append(vs, r.results[i])
		}
		results = append(results, mergeVals(pcs, vs))
	}
	return exit, results
}

func (fr *Frame) phiIncoming(phi *ssa.Phi, b, pred *ssa.BasicBlock) *Term {
	for i, p := range b.Preds {
		if p == pred {
			return fr.val(phi.Edges[i])
		}
	}
	panic("phi pred not found")
}

// enterLoop: check invariants on entry, havoc loop-modified state, assume invariants.
func (fr *Frame) enterLoop(li *loopInfo, edges []*State, preds []*ssa.BasicBlock) *State {
	fc := fr.fc
	entry := fc.merge(edges)
	var pcs []*Term
	for _, e := range edges {
		pcs = append(pcs, e.pc)
	}
	b := li.header
	phiEntry := map[*ssa.Phi]*Term{}
	for _, in := range b.Instrs {
		phi, ok := in.(*ssa.Phi)
		if !ok {
			break
		}
		var vs []*Term
		for _, p := range preds {
			vs = append(vs, fr.phiIncoming(phi, b, p))
		}
		phiEntry[phi] = mergeVals(pcs, vs)
	}
	invs := fr.loopClauses(li)
	// 1. invariant holds on entry
	for i, cl := range invs {
		if cl.kind != "invariant" {
			continue
		}
		env := fr.newEnv(entry, fc.entry)
		env.phiOverride = phiEntry
		env.at = b
		g := env.boolExpr(cl.expr)
		fc.oblige(fmt.Sprintf("%s#loop%d.init.%d", fr.oname(), li.ordinal, i+1), "inv", cl.ids, entry.pc, g, cl, "loop invariant holds on entry: "+cl.text)
	}
	// 2. havoc
	st := entry.clone()
	for _, in := range b.Instrs {
		phi, ok := in.(*ssa.Phi)
		if !ok {
			break
		}
		t := fc.fresh("loop"+fmt.Sprint(li.ordinal)+"."+phi.Comment, SortOf(phi.Type()))
		fr.vals[phi] = t
		fr.typeInv(st, t, phi.Type())
	}
	ws := fr.loopWrites(li)
	before := st.clone()
	fr.havocClasses(st, ws, fmt.Sprintf("loop%d", li.ordinal))
	if len(b.Instrs) > 0 {
		fr.restorePrivate(before, st, b.Instrs[0], li.body)
	}
	fr.loopFrame(li, before, st, ws)
	// 3. assume invariants
	for _, cl := range invs {
		if cl.kind != "invariant" {
			continue
		}
		env := fr.newEnv(st, fc.entry)
		env.at = b
		env.loopEntry = entry
		env.phiEntry = phiEntry
		g := env.boolExpr(cl.expr)
		fc.assume(st.pc, g)
	}
	// decreases: remember the measure at loop head
	for _, cl := range invs {
		if cl.kind == "decreases" {
			env := fr.newEnv(st, fc.entry)
			env.at = b
			m, _ := env.eval(cl.expr)
			if fr.cutPhi == nil {
				fr.cutPhi = map[*ssa.Phi]*Term{}
			}
			fr.fc.eng.measures[li] = m
		}
	}
	return st
}

func (fr *Frame) closeLoop(li *loopInfo, es *State, latch *ssa.BasicBlock) {
	fc := fr.fc
	b := li.header
	phiBack := map[*ssa.Phi]*Term{}
	for _, in := range b.Instrs {
		phi, ok := in.(*ssa.Phi)
		if !ok {
			break
		}
		phiBack[phi] = fr.phiIncoming(phi, b, latch)
	}
	invs := fr.loopClauses(li)
	for i, cl := range invs {
		env := fr.newEnv(es, fc.entry)
		env.phiOverride = phiBack
		env.at = b
		switch cl.kind {
		case "invariant":
			g := env.boolExpr(cl.expr)
			fc.oblige(fmt.Sprintf("%s#loop%d.preserve.%d", fr.oname(), li.ordinal, i+1), "inv", cl.ids, es.pc, g, cl, "loop invariant preserved: "+cl.text)
		case "decreases":
			m0 := fr.fc.eng.measures[li]
			m1, _ := env.eval(cl.expr)
			if m0 != nil && m0.sort == m1.sort {
				var g *Term
				if m0.sort == SInt {
					g = And(Op("<", SBool, m1, m0), Op(">=", SBool, m0, IntLit64(0)))
				} else {
					g = And(Op("bvslt", SBool, m1, m0), Op("bvsge", SBool, m0, BVLit64(0, m0.sort.Bits())))
				}
				fc.oblige(fmt.Sprintf("%s#loop%d.decreases", fr.oname(), li.ordinal), "inv", cl.ids, es.pc, g, cl, "loop measure decreases and is bounded below: "+cl.text)
			}
		}
	}
}

func (fr *Frame) oname() string {
	if fr.prefix != "" {
		return fr.prefix
	}
	return fr.fc.fn
}

func (fr *Frame) loopClauses(li *loopInfo) []*Clause {
	c := fr.ctr
	if c == nil {
		c = fr.fc.eng.contractOf(fr.fn)
	}
	if c == nil {
		return nil
	}
	return c.loops[li.ordinal]
}

// ---------------------------------------------------------------------------------------
// type invariants of values that come from outside (parameters, loads, havoc)

func (fr *Frame) typeInv(st *State, t *Term, ty types.Type) {
	fc := fr.fc
	switch u := ty.Underlying().(type) {
	case *types.Slice:
		z := BVLit64(0, 64)
		lim := BVLit(new(big.Int).Lsh(big.NewInt(1), 40), 64)
		_ = u
		fc.assume(True, And(
			Op("bvsle", SBool, z, SlLen(t)),
			Op("bvsle", SBool, SlLen(t), SlCap(t)),
			Op("bvule", SBool, SlCap(t), lim),
			Op("bvule", SBool, SlOff(t), lim),
			Op(">=", SBool, SlArr(t), IntLit64(0)),
			Op("<=", SBool, SlArr(t), st.alloc),
			Implies(Eq(SlArr(t), IntLit64(0)), Eq(SlCap(t), z)),
		))
	case *types.Pointer, *types.Map, *types.Chan:
		fc.assume(True, And(Op(">=", SBool, t, IntLit64(0)), Op("<=", SBool, t, st.alloc)))
	case *types.Signature:
		fc.assume(True, Op(">=", SBool, t, IntLit64(0)))
	case *types.Interface:
		fc.assume(True, And(Op(">=", SBool, IfTag(t), IntLit64(0)), Op(">=", SBool, IfVal(t), IntLit64(0)), Op("<=", SBool, IfVal(t), st.alloc),
			Implies(Eq(IfTag(t), IntLit64(0)), Eq(IfVal(t), IntLit64(0)))))
	case *types.Basic:
		if u.Kind() == types.String {
			fc.assume(True, Op("bvule", SBool, StrLen(t), BVLit(new(big.Int).Lsh(big.NewInt(1), 40), 64)))
		}
	case *types.Struct:
		dt := TR.structDT(ty)
		for i := 0; i < u.NumFields(); i++ {
			ft := u.Field(i).Type()
			switch ft.Underlying().(type) {
			case *types.Slice, *types.Pointer, *types.Map, *types.Interface, *types.Struct:
				fr.typeInv(st, SelField(dt, i, t), ft)
			}
		}
	}
}

// havocClasses replaces the named heap classes by fresh arrays; allocation counter only grows.
func (fr *Frame) havocClasses(st *State, classes map[string]bool, why string) {
	fc := fr.fc
	if fr.cur != nil && !strings.HasPrefix(why, "loop") {
		before := st.clone()
		defer fr.restorePrivate(before, st, fr.cur, nil)
	}
	var ks, havocked []string
	for k := range classes {
		ks = append(ks, k)
	}
	sort.Strings(ks)
	for _, k := range ks {
		if strings.HasPrefix(k, freshOnly) {
			// written only inside objects the callee allocated itself: objects that existed
			// before the call keep their contents
			base := k[len(freshOnly):]
			if classes[base] {
				continue
			}
			s, ok := fc.sortForHavoc(base)
			if !ok {
				continue
			}
			old := fc.get(st, base, s)
			nh := fc.fresh("hvf."+why+"."+base, s)
			r := BVar("r", SRef)
			fc.assume(True, Forall([]*Term{r}, Implies(Op("<=", SBool, r, st.alloc), Eq(Select(nh, r), Select(old, r))), []*Term{Select(nh, r)}))
			st.heap[base] = nh
			havocked = append(havocked, base)
			if base == "big" {
				fc.bigHavocs = append(fc.bigHavocs, nh)
			}
			continue
		}
		s, ok := fc.sortForHavoc(k)
		if !ok {
			continue
		}
		st.heap[k] = fc.fresh("hv."+why+"."+k, s)
		havocked = append(havocked, k)
		if k == "big" {
			fc.bigHavocs = append(fc.bigHavocs, st.heap[k])
		}
	}
	defer func() {
		for _, k := range havocked {
			fc.heapClosure(k, st.heap[k], st.alloc)
		}
	}()
	if fc.initMode && st.alloc.IsLit() {
		// package initialisers are evaluated with literal references (only the identity of
		// objects matters): an opaque call may allocate, so leave a window of references
		st.alloc = iAdd(st.alloc, IntLit64(1<<20))
		return
	}
	na := fc.fresh("alloc."+why, SInt)
	fc.assume(True, Op(">=", SBool, na, st.alloc))
	st.alloc = na
}

// sortForHavoc: the sort of a heap class that is about to be forgotten. A class this function
// has not read yet must be forgotten all the same (a later read - for instance by the callee's
// postcondition - would otherwise see the pre-call heap); its sort comes from the registry.
// When no sort is known the class is remembered as lost: reading it afterwards is an engine
// error (the function is then reported undecided), never a silent use of the stale heap.
func (fc *FuncCtx) sortForHavoc(k string) (Sort, bool) {
	if s, ok := fc.heapSorts[k]; ok {
		return s, true
	}
	if strings.HasPrefix(k, "ghost:") {
		if g := fc.eng.contracts.ghosts[k[len("ghost:"):]]; g != nil {
			fc.heapSorts[k] = g.sort
			return g.sort, true
		}
	}
	if s, ok := sortOfClass(k); ok {
		fc.heapSorts[k] = s
		return s, true
	}
	if fc.lostHavoc == nil {
		fc.lostHavoc = map[string]bool{}
	}
	fc.lostHavoc[k] = true
	return "", false
}

func (fr *Frame) loopWrites(li *loopInfo) map[string]bool {
	ws := map[string]bool{}
	for b := range li.body {
		for _, in := range b.Instrs {
			fr.fc.eng.frames.instrWrites(fr, in, ws)
		}
	}
	return ws
}

// ---------------------------------------------------------------------------------------

func (fr *Frame) alloc(st *State) *Term {
	fc := fr.fc
	r := iAdd(st.alloc, IntLit64(1))
	st.alloc = r
	_ = fc
	return r
}

func (fr *Frame) safe(st *State, kind string, cond *Term, in ssa.Instruction, descr string) {
	if cond == True {
		return
	}
	fc := fr.fc
	ids := fr.safeIDs()
	if ids != nil {
		name := fc.site(fr.oname() + "#safe." + kind)
		fc.oblige(name, "safe", ids, st.pc, cond, nil, descr+fr.posOf(in))
	}
	// after the check the execution continues only if it passed
	n0 := len(fc.assumps)
	fc.assume(st.pc, cond)
	if len(fc.assumps) > n0 {
		fc.safeAssump[n0] = true
	}
}

func (fr *Frame) posOf(in ssa.Instruction) string {
	if in == nil {
		return ""
	}
	p := in.Pos()
	if !p.IsValid() {
		return ""
	}
	pos := fr.fc.eng.prog.Fset.Position(p)
	return fmt.Sprintf(" (%s:%d)", shortPath(pos.Filename), pos.Line)
}

func shortPath(p string) string {
	return strings.TrimPrefix(p, "/repo/")
}

func (fr *Frame) safeIDs() []string {
	c := fr.fc.eng.topContract
	if c == nil || len(c.nopanic) == 0 {
		return nil
	}
	return c.nopanic
}

func (fr *Frame) nonNil(st *State, ref *Term, in ssa.Instruction) {
	if ref.sort != SInt {
		return
	}
	fr.safe(st, "nil", Not(Eq(ref, IntLit64(0))), in, "nil pointer dereference")
}

func toBV64(t *Term, signed bool) *Term {
	n := t.sort.Bits()
	if n == 64 {
		return t
	}
	if n > 64 {
		return Extract(63, 0, t)
	}
	if signed {
		return SignExt(64-n, t)
	}
	return ZeroExt(64-n, t)
}

func Extract(hi, lo int, t *Term) *Term {
	if t.IsLit() && t.val != nil {
		v := new(big.Int).Rsh(t.val, uint(lo))
		return BVLit(v, hi-lo+1)
	}
	if lo == 0 && hi == t.sort.Bits()-1 {
		return t
	}
	return P.mk(fmt.Sprintf("(_ extract %d %d)", hi, lo), "", SBV(hi-lo+1), t)
}
func ZeroExt(k int, t *Term) *Term {
	if k == 0 {
		return t
	}
	if t.IsLit() && t.val != nil {
		return BVLit(t.val, t.sort.Bits()+k)
	}
	return P.mk(fmt.Sprintf("(_ zero_extend %d)", k), "", SBV(t.sort.Bits()+k), t)
}
func SignExt(k int, t *Term) *Term {
	if k == 0 {
		return t
	}
	if t.IsLit() && t.val != nil {
		n := t.sort.Bits()
		v := new(big.Int).Set(t.val)
		if v.Bit(n-1) == 1 {
			v.Sub(v, new(big.Int).Lsh(big.NewInt(1), uint(n)))
		}
		return BVLit(v, n+k)
	}
	return P.mk(fmt.Sprintf("(_ sign_extend %d)", k), "", SBV(t.sort.Bits()+k), t)
}

func convInt(t *Term, fromSigned bool, toBits int) *Term {
	n := t.sort.Bits()
	switch {
	case n == toBits:
		return t
	case n > toBits:
		return Extract(toBits-1, 0, t)
	case fromSigned:
		return SignExt(toBits-n, t)
	default:
		return ZeroExt(toBits-n, t)
	}
}

func bvBin(op string, a, b *Term) *Term {
	if a.IsLit() && b.IsLit() && a.val != nil && b.val != nil {
		n := a.sort.Bits()
		switch op {
		case "bvadd":
			return BVLit(new(big.Int).Add(a.val, b.val), n)
		case "bvsub":
			return BVLit(new(big.Int).Sub(a.val, b.val), n)
		case "bvmul":
			return BVLit(new(big.Int).Mul(a.val, b.val), n)
		case "bvand":
			return BVLit(new(big.Int).And(a.val, b.val), n)
		case "bvor":
			return BVLit(new(big.Int).Or(a.val, b.val), n)
		}
	}
	if op == "bvadd" || op == "bvsub" {
		if b.IsLit() && b.val != nil && b.val.Sign() == 0 {
			return a
		}
	}
	if op == "bvadd" && a.IsLit() && a.val != nil && a.val.Sign() == 0 {
		return b
	}
	return Op(op, a.sort, a, b)
}

func bvCmp(op string, a, b *Term) *Term {
	if a.IsLit() && b.IsLit() && a.val != nil && b.val != nil {
		n := a.sort.Bits()
		av, bv := a.val, b.val
		if strings.HasPrefix(op, "bvs") {
			av, bv = toSigned(av, n), toSigned(bv, n)
		}
		c := av.Cmp(bv)
		switch op[3:] {
		case "lt":
			return BoolLit(c < 0)
		case "le":
			return BoolLit(c <= 0)
		case "gt":
			return BoolLit(c > 0)
		case "ge":
			return BoolLit(c >= 0)
		}
	}
	return Op(op, SBool, a, b)
}

func toSigned(v *big.Int, n int) *big.Int {
	if v.Bit(n-1) == 1 {
		return new(big.Int).Sub(v, new(big.Int).Lsh(big.NewInt(1), uint(n)))
	}
	return v
}

// shiftAmount converts a shift count y (any int type) to x's width with saturation.
func shiftAmount(y *Term, width int) (amt *Term, over *Term) {
	n := y.sort.Bits()
	if n == width {
		return y, bvCmp("bvuge", y, BVLit64(uint64(width), n))
	}
	if n < width {
		e := ZeroExt(width-n, y)
		return e, bvCmp("bvuge", e, BVLit64(uint64(width), width))
	}
	return Extract(width-1, 0, y), bvCmp("bvuge", y, BVLit64(uint64(width), n))
}

func (fr *Frame) binop(st *State, in *ssa.BinOp) *Term {
	x, y := fr.val(in.X), fr.val(in.Y)
	xt := in.X.Type()
	if isIntType(xt) {
		signed := isSigned(xt)
		n := x.sort.Bits()
		switch in.Op {
		case token.ADD:
			return bvBin("bvadd", x, y)
		case token.SUB:
			return bvBin("bvsub", x, y)
		case token.MUL:
			return bvBin("bvmul", x, y)
		case token.QUO, token.REM:
			fr.safe(st, "div", Not(Eq(y, BVLit64(0, n))), in, "integer division by zero")
			op := map[bool]map[token.Token]string{true: {token.QUO: "bvsdiv", token.REM: "bvsrem"}, false: {token.QUO: "bvudiv", token.REM: "bvurem"}}[signed][in.Op]
			// power-of-two unsigned divisions as shifts/masks (solver friendly)
			if !signed && y.IsLit() && y.val != nil && y.val.Sign() > 0 && new(big.Int).And(y.val, new(big.Int).Sub(y.val, big.NewInt(1))).Sign() == 0 {
				k := y.val.BitLen() - 1
				if in.Op == token.QUO {
					return Op("bvlshr", x.sort, x, BVLit64(uint64(k), n))
				}
				return Op("bvand", x.sort, x, BVLit(new(big.Int).Sub(y.val, big.NewInt(1)), n))
			}
			return Op(op, x.sort, x, y)
		case token.AND:
			return bvBin("bvand", x, y)
		case token.OR:
			return bvBin("bvor", x, y)
		case token.XOR:
			return Op("bvxor", x.sort, x, y)
		case token.AND_NOT:
			return Op("bvand", x.sort, x, Op("bvnot", y.sort, y))
		case token.SHL, token.SHR:
			if isSigned(in.Y.Type()) {
				fr.safe(st, "shift", bvCmp("bvsge", y, BVLit64(0, y.sort.Bits())), in, "negative shift amount")
			}
			amt, over := shiftAmount(y, n)
			if in.Op == token.SHL {
				return Ite(over, BVLit64(0, n), Op("bvshl", x.sort, x, amt))
			}
			if signed {
				return Ite(over, Op("bvashr", x.sort, x, BVLit64(uint64(n-1), n)), Op("bvashr", x.sort, x, amt))
			}
			return Ite(over, BVLit64(0, n), Op("bvlshr", x.sort, x, amt))
		case token.EQL:
			return Eq(x, y)
		case token.NEQ:
			return Not(Eq(x, y))
		case token.LSS, token.LEQ, token.GTR, token.GEQ:
			pre := "bvu"
			if signed {
				pre = "bvs"
			}
			suf := map[token.Token]string{token.LSS: "lt", token.LEQ: "le", token.GTR: "gt", token.GEQ: "ge"}[in.Op]
			return bvCmp(pre+suf, x, y)
		}
	}
	switch in.Op {
	case token.EQL, token.NEQ:
		var e *Term
		if x.sort == SStr {
			e = fr.strEq(x, y)
		} else {
			e = Eq(x, y)
		}
		if in.Op == token.NEQ {
			return Not(e)
		}
		return e
	case token.LAND:
		return And(x, y)
	case token.LOR:
		return Or(x, y)
	}
	if x.sort == SF64 {
		// floating point: uninterpreted
		if in.Op == token.LSS || in.Op == token.LEQ || in.Op == token.GTR || in.Op == token.GEQ {
			return fr.fc.fresh("fcmp", SBool)
		}
		return fr.fc.fresh("fop", SF64)
	}
	if x.sort == SStr && in.Op == token.ADD {
		r := fr.fc.fresh("strcat", SStr)
		fr.fc.assume(True, Eq(StrLen(r), bvBin("bvadd", StrLen(x), StrLen(y))))
		return r
	}
	if x.sort == SStr {
		return fr.fc.fresh("strcmp", SBool)
	}
	panic(unsupported(fmt.Sprintf("binop %s on %s", in.Op, xt)))
}

func (fr *Frame) strEq(x, y *Term) *Term {
	// Strings are immutable values; every string is represented canonically (bytes beyond the
	// length are zero, as in the literals), so Go's == is equality of the representation. For
	// strings built from bytes only the content on [0,len) is asserted, which can make a true
	// equality unprovable but never a false one provable.
	return Eq(x, y)
}

func (fr *Frame) unop(st *State, in *ssa.UnOp) *Term {
	switch in.Op {
	case token.MUL: // load
		a := fr.addrOf(in.X)
		if _, tracked := fr.addrs[in.X]; a.base != nil && !tracked && (a.kind == "field" || a.kind == "cell" || a.kind == "structref" || a.kind == "elem") {
			if _, isAlloc := in.X.(*ssa.Alloc); !isAlloc {
				fr.nonNil(st, a.base, in)
			}
		}
		var v *Term
		if g, ok := in.X.(*ssa.Global); ok && (!fr.fc.initMode || (fr.fn.Pkg != nil && g.Pkg != fr.fn.Pkg)) {
			v = fr.fc.eng.loadGlobal(fr, st, g, a)
		} else {
			v = fr.fc.load(st, a)
		}
		fr.typeInv(st, v, in.Type())
		return v
	case token.SUB:
		x := fr.val(in.X)
		if x.sort.IsBV() {
			return Op("bvneg", x.sort, x)
		}
		return fr.fc.fresh("fneg", x.sort)
	case token.XOR:
		x := fr.val(in.X)
		return Op("bvnot", x.sort, x)
	case token.NOT:
		return Not(fr.val(in.X))
	case token.ARROW:
		// channel receive: the value (and the comma-ok flag) come from another goroutine and are
		// unconstrained; no modelled state changes
		fr.fc.note("channel receive yields an unconstrained value" + fr.posOf(in))
		fr.bumpChan(st, "$recv", True)
		elem := in.X.Type().Underlying().(*types.Chan).Elem()
		v := fr.fc.fresh("recv", SortOf(elem))
		fr.typeInv(st, v, elem)
		if in.CommaOk {
			fr.tuples[in] = []*Term{v, fr.fc.fresh("recv.ok", SBool)}
			return v
		}
		return v
	}
	panic(unsupported("unop " + in.Op.String()))
}

func (fr *Frame) convert(st *State, in *ssa.Convert) *Term {
	x := fr.val(in.X)
	from, to := in.X.Type(), in.Type()
	if isIntType(from) && isIntType(to) {
		return convInt(x, isSigned(from), SortOf(to).Bits())
	}
	fs, ts := SortOf(from), SortOf(to)
	switch {
	case fs == ts:
		return x
	case fs == SSlice && ts == SStr:
		// string(b): fresh string with the same length and bytes
		r := fr.fc.fresh("str", SStr)
		fr.fc.assume(True, Eq(StrLen(r), SlLen(x)))
		if el, ok := from.Underlying().(*types.Slice); ok && SortOf(el.Elem()) == SBV8 {
			row := Select(fr.fc.get(st, elemClass(el.Elem()), elemClassSort(el.Elem())), SlArr(x))
			k := BVar("k", SBV64)
			fr.fc.assume(True, Forall([]*Term{k}, Implies(bvCmp("bvult", k, SlLen(x)),
				Eq(Select(StrData(r), k), Select(row, bvBin("bvadd", SlOff(x), k)))), []*Term{Select(StrData(r), k)}))
		}
		return r
	case fs == SStr && ts == SSlice:
		el := to.Underlying().(*types.Slice).Elem()
		ref := fr.alloc(st)
		cls := elemClass(el)
		h := fr.fc.get(st, cls, elemClassSort(el))
		if SortOf(el) == SBV8 {
			st.heap[cls] = Store(h, ref, StrData(x))
		} else {
			st.heap[cls] = Store(h, ref, fr.fc.fresh("runes", SArr(SBV64, SortOf(el))))
		}
		return MkSlice(ref, BVLit64(0, 64), StrLen(x), StrLen(x))
	case fs == SF64 || ts == SF64:
		r := fr.fc.fresh("fconv", ts)
		return r
	case ts == SStr && fs.IsBV():
		r := fr.fc.fresh("runestr", SStr)
		return r
	case fs == SInt && ts == SInt:
		return x
	}
	panic(unsupported(fmt.Sprintf("convert %s -> %s", from, to)))
}
