package main

// Builtins and trusted library models (math/big, bytes, encoding/binary, errors, fmt, sync).

import (
	"fmt"
	"sort"
	"go/types"
	"math/big"
	"strings"

	"golang.org/x/tools/go/ssa"
)

var bigSort = SArr(SRef, SInt)

// Package-level *big.Int constants (initialised once, never reassigned) keep their value: every
// write to a big.Int in the verified code carries the obligation that its target is none of the
// constants the function reads (safe.constwrite), so a read of such a constant is its literal.
func (fr *Frame) bigGet(st *State, ref *Term) *Term {
	if v, ok := fr.fc.eng.constBig[ref]; ok {
		fr.fc.usedConsts[ref] = true
		return IntLit(v)
	}
	return Select(fr.fc.get(st, "big", bigSort), ref)
}

func (fr *Frame) bigSet(st *State, ref, v *Term) {
	if !fr.fc.initMode {
		fr.fc.bigWrites = append(fr.fc.bigWrites, bigWrite{pc: st.pc, z: ref, where: fr.oname()})
	}
	st.heap["big"] = Store(fr.fc.get(st, "big", bigSort), ref, v)
}

type bigWrite struct {
	pc, z *Term
	where string
}

// constWriteObligations: no big.Int write of the function targets a constant it relies on.
func (fc *FuncCtx) constWriteObligations(ids []string) {
	if len(fc.usedConsts) == 0 {
		return
	}
	var cs []*Term
	for c := range fc.usedConsts {
		cs = append(cs, c)
	}
	sort.Slice(cs, func(i, j int) bool { return cs[i].id < cs[j].id })
	// distinct constants are distinct objects (different allocations of the initialiser)
	for i := range cs {
		for j := i + 1; j < len(cs); j++ {
			fc.assume(True, Not(Eq(cs[i], cs[j])))
		}
	}
	for _, w := range fc.bigWrites {
		var conj []*Term
		for _, c := range cs {
			conj = append(conj, Not(Eq(w.z, c)))
		}
		fc.oblige(fc.site(fc.fn+"#safe.constwrite"), "safe", ids, w.pc, And(conj...), nil, "a big.Int written in place is not one of the shared package constants ("+w.where+")")
		fc.assume(w.pc, And(conj...))
	}
	// the constants hold their values in the entry heap and in every heap version introduced by
	// a havoc (opaque callees are assumed not to write package constants; verified code is
	// checked by the obligations above), so reading them through the heap gives the literal
	h0 := fc.heapInit("big", bigSort)
	for _, c := range cs {
		v := IntLit(fc.eng.constBig[c])
		fc.assume(True, Eq(Select(h0, c), v))
		for _, hv := range fc.bigHavocs {
			fc.assume(True, Eq(Select(hv, c), v))
		}
	}
}

func iLit(v int64) *Term { return IntLit64(v) }

func iAdd(a, b *Term) *Term {
	if a.IsLit() && b.IsLit() && a.val != nil && b.val != nil {
		return IntLit(new(big.Int).Add(a.val, b.val))
	}
	return Op("+", SInt, a, b)
}
func iSub(a, b *Term) *Term {
	if a.IsLit() && b.IsLit() && a.val != nil && b.val != nil {
		return IntLit(new(big.Int).Sub(a.val, b.val))
	}
	return Op("-", SInt, a, b)
}
// iMul: products with a literal factor stay linear; products of two symbolic factors use the
// uninterpreted symbol imul (shared by code and specification, with audited sign/unit axioms).
func iMul(a, b *Term) *Term {
	if a.IsLit() && b.IsLit() && a.val != nil && b.val != nil {
		return IntLit(new(big.Int).Mul(a.val, b.val))
	}
	if a.IsLit() {
		a, b = b, a
	}
	if b.IsLit() && b.val != nil {
		if b.val.Cmp(big.NewInt(1)) == 0 {
			return a
		}
		if b.val.Sign() == 0 {
			return IntLit64(0)
		}
		return Op("*", SInt, a, b)
	}
	isLitIte := func(t *Term) bool {
		return t.op == "ite" && t.args[1].IsLit() && t.args[2].IsLit()
	}
	if isLitIte(b) {
		return Ite(b.args[0], iMul(a, b.args[1]), iMul(a, b.args[2]))
	}
	if isLitIte(a) {
		return Ite(a.args[0], iMul(b, a.args[1]), iMul(b, a.args[2]))
	}
	return App("imul", SInt, a, b)
}

// eDiv / eMod: Euclidean quotient and remainder (SMT-LIB div/mod == math/big Div/Mod); native for
// literal divisors, otherwise the uninterpreted symbols ediv/emod with audited range axioms.
func eDiv(x, y *Term) *Term {
	if y.IsLit() && y.val != nil && y.val.Sign() != 0 {
		if x.IsLit() && x.val != nil {
			q, _ := new(big.Int).DivMod(x.val, y.val, new(big.Int))
			return IntLit(q)
		}
		return Op("div", SInt, x, y)
	}
	return App("ediv", SInt, x, y)
}

func eMod(x, y *Term) *Term {
	if y.IsLit() && y.val != nil && y.val.Sign() != 0 {
		if x.IsLit() && x.val != nil {
			_, m := new(big.Int).DivMod(x.val, y.val, new(big.Int))
			return IntLit(m)
		}
		return Op("mod", SInt, x, y)
	}
	return App("emod", SInt, x, y)
}
func iLt(a, b *Term) *Term { return Op("<", SBool, a, b) }
func iLe(a, b *Term) *Term { return Op("<=", SBool, a, b) }

var two64 = new(big.Int).Lsh(big.NewInt(1), 64)

// U64: value of an unsigned 64-bit vector as an integer.
func U64(t *Term) *Term {
	if t.IsLit() && t.val != nil {
		return IntLit(t.val)
	}
	if t.sort.Bits() < 64 {
		t = ZeroExt(64-t.sort.Bits(), t)
	}
	return App("U64", SInt, t)
}

// S64: value of a signed 64-bit vector.
func S64(t *Term) *Term {
	if t.IsLit() && t.val != nil {
		return IntLit(toSigned(t.val, t.sort.Bits()))
	}
	if t.sort.Bits() < 64 {
		t = SignExt(64-t.sort.Bits(), t)
	}
	if t.op == "app" && (t.name == "sl_len" || t.name == "sl_cap" || t.name == "str_len") {
		// lengths and capacities are non-negative (type invariant, asserted wherever a slice or
		// string value enters): the signed and the unsigned reading coincide
		return App("U64", SInt, t)
	}
	return App("S64", SInt, t)
}

func L64(t *Term) *Term {
	if t.IsLit() && t.val != nil {
		return BVLit(t.val, 64)
	}
	if t.op == "app" && t.name == "U64" {
		return t.args[0]
	}
	return App("L64", SBV64, t)
}

func pow2Term(n *Term) *Term {
	// n is a BV64 shift count
	if n.IsLit() && n.val != nil && n.val.BitLen() <= 12 {
		return IntLit(new(big.Int).Lsh(big.NewInt(1), uint(n.val.Int64())))
	}
	return App("pow2", SInt, U64(n))
}

func (fr *Frame) builtin(st *State, b *ssa.Builtin, c *ssa.CallCommon, in ssa.Instruction) []*Term {
	fc := fr.fc
	switch b.Name() {
	case "len", "cap":
		x := fr.val(c.Args[0])
		switch u := c.Args[0].Type().Underlying().(type) {
		case *types.Slice:
			if b.Name() == "len" {
				return []*Term{SlLen(x)}
			}
			return []*Term{SlCap(x)}
		case *types.Basic:
			return []*Term{StrLen(x)}
		case *types.Map:
			return []*Term{fc.eng.mapLen(fc, st, x, u)}
		case *types.Pointer:
			return []*Term{BVLit64(uint64(u.Elem().Underlying().(*types.Array).Len()), 64)}
		case *types.Array:
			return []*Term{BVLit64(uint64(u.Len()), 64)}
		case *types.Chan:
			r := fc.fresh("chanlen", SBV64)
			fc.assume(True, bvCmp("bvsge", r, BVLit64(0, 64)))
			return []*Term{r}
		}
	case "append":
		return []*Term{fr.appendModel(st, c, in)}
	case "copy":
		return []*Term{fr.copyModel(st, c)}
	case "delete":
		m := fr.val(c.Args[0])
		mt := c.Args[0].Type().Underlying().(*types.Map)
		hk, hs, _, _ := mapClasses(mt)
		k := fr.val(c.Args[1])
		hh := fc.get(st, hk, hs)
		st.heap[hk] = Store(hh, m, Store(Select(hh, m), k, False))
		return nil
	case "print", "println", "close":
		return nil
	case "recover":
		return []*Term{NilIface}
	case "min", "max":
		r := fr.val(c.Args[0])
		signed := isSigned(c.Args[0].Type())
		for _, a := range c.Args[1:] {
			v := fr.val(a)
			op := "bvult"
			if signed {
				op = "bvslt"
			}
			if b.Name() == "min" {
				r = Ite(bvCmp(op, v, r), v, r)
			} else {
				r = Ite(bvCmp(op, r, v), v, r)
			}
		}
		return []*Term{r}
	case "ssa:wrapnilchk":
		v := fr.val(c.Args[0])
		fr.nonNil(st, v, in)
		return []*Term{v}
	}
	panic(unsupported("builtin " + b.Name()))
}

func (fr *Frame) appendModel(st *State, c *ssa.CallCommon, in ssa.Instruction) *Term {
	fc := fr.fc
	s := fr.val(c.Args[0])
	el := c.Args[0].Type().Underlying().(*types.Slice).Elem()
	if len(c.Args) == 1 {
		return s
	}
	t := fr.val(c.Args[1])
	cls := elemClass(el)
	csort := elemClassSort(el)
	h := fc.get(st, cls, csort)
	var n, srcAt func(k *Term) *Term
	var tn *Term
	if t.sort == SStr {
		tn = StrLen(t)
		srcAt = func(k *Term) *Term { return Select(StrData(t), k) }
	} else {
		tn = SlLen(t)
		trow := Select(h, SlArr(t))
		srcAt = func(k *Term) *Term { return Select(trow, bvBin("bvadd", SlOff(t), k)) }
	}
	_ = n
	newLen := bvBin("bvadd", SlLen(s), tn)
	fits := bvCmp("bvule", newLen, SlCap(s))
	newRef := fr.alloc(st)
	newCap := fc.fresh("appendcap", SBV64)
	fc.assume(True, And(bvCmp("bvuge", newCap, newLen), bvCmp("bvule", newCap, BVLit64(1<<40, 64))))
	arr := Ite(fits, SlArr(s), newRef)
	off := Ite(fits, SlOff(s), BVLit64(0, 64))
	cp := Ite(fits, SlCap(s), newCap)
	oldRow := Select(h, SlArr(s))
	_, rowSort := csort.ArrParts()
	R := fc.fresh("appendrow", rowSort)
	k := BVar("k", SBV64)
	start := bvBin("bvadd", off, SlLen(s))
	inNew := And(bvCmp("bvule", start, k), bvCmp("bvult", k, bvBin("bvadd", start, tn)))
	base := Ite(fits, Select(oldRow, k), Select(oldRow, bvBin("bvadd", SlOff(s), k)))
	// single element appends are written without the quantifier's help as well
	fc.assume(True, Forall([]*Term{k}, Eq(Select(R, k), Ite(inNew, srcAt(bvBin("bvsub", k, start)), base)), []*Term{Select(R, k)}))
	if tn.IsLit() && tn.val != nil && tn.val.Cmp(big.NewInt(4)) <= 0 {
		for i := int64(0); i < tn.val.Int64(); i++ {
			fc.assume(True, Eq(Select(R, bvBin("bvadd", start, BVLit64(uint64(i), 64))), srcAt(BVLit64(uint64(i), 64))))
		}
	}
	st.heap[cls] = Store(h, arr, R)
	return MkSlice(arr, off, newLen, cp)
}

func (fr *Frame) copyModel(st *State, c *ssa.CallCommon) *Term {
	fc := fr.fc
	d := fr.val(c.Args[0])
	s := fr.val(c.Args[1])
	el := c.Args[0].Type().Underlying().(*types.Slice).Elem()
	cls := elemClass(el)
	csort := elemClassSort(el)
	h := fc.get(st, cls, csort)
	var sn *Term
	var srcAt func(k *Term) *Term
	if s.sort == SStr {
		sn = StrLen(s)
		srcAt = func(k *Term) *Term { return Select(StrData(s), k) }
	} else {
		sn = SlLen(s)
		srow := Select(h, SlArr(s))
		srcAt = func(k *Term) *Term { return Select(srow, bvBin("bvadd", SlOff(s), k)) }
	}
	n := Ite(bvCmp("bvult", SlLen(d), sn), SlLen(d), sn)
	oldRow := Select(h, SlArr(d))
	_, rowSort := csort.ArrParts()
	R := fc.fresh("copyrow", rowSort)
	k := BVar("k", SBV64)
	in := And(bvCmp("bvule", SlOff(d), k), bvCmp("bvult", k, bvBin("bvadd", SlOff(d), n)))
	fc.assume(True, Forall([]*Term{k}, Eq(Select(R, k), Ite(in, srcAt(bvBin("bvsub", k, SlOff(d))), Select(oldRow, k))), []*Term{Select(R, k)}))
	// when nothing is copied the heap is unchanged (helps the solver)
	st.heap[cls] = Ite(Eq(n, BVLit64(0, 64)), h, Store(h, SlArr(d), R))
	return n
}

func (eng *Engine) mapLen(fc *FuncCtx, st *State, m *Term, mt *types.Map) *Term {
	hk, hs, _, _ := mapClasses(mt)
	_, row := hs.ArrParts()
	name := "maplen!" + sanitize(hk)
	Declare(name, []Sort{row}, SBV64)
	r := App(name, SBV64, Select(fc.get(st, hk, hs), m))
	fc.assume(True, And(bvCmp("bvsge", r, BVLit64(0, 64)), bvCmp("bvule", r, BVLit64(1<<40, 64))))
	return Ite(Eq(m, IntLit64(0)), BVLit64(0, 64), r)
}

// ifaceModel: well-known interface methods.
func (fr *Frame) ifaceModel(st *State, c *ssa.CallCommon, recv *Term) ([]*Term, bool) {
	if c.Method.Name() == "Error" && isErrorType(c.Value.Type()) {
		r := fr.fc.fresh("errstr", SStr)
		return []*Term{r}, true
	}
	return nil, false
}

func funcFullName(f *ssa.Function) string {
	if f.Signature != nil && f.Signature.Recv() != nil {
		rt := f.Signature.Recv().Type()
		if p, ok := rt.(*types.Pointer); ok {
			rt = p.Elem()
		}
		if n, ok := rt.(*types.Named); ok && n.Obj().Pkg() != nil {
			return n.Obj().Pkg().Path() + "." + n.Obj().Name() + "." + f.Name()
		}
	}
	return funcPkgPath(f) + "." + f.Name()
}

func (fr *Frame) libModel(st *State, f *ssa.Function, args []*Term, in ssa.Instruction, c *ssa.CallCommon) ([]*Term, bool) {
	fc := fr.fc
	name := funcFullName(f)
	switch {
	case strings.HasPrefix(name, "math/big.Int."):
		return fr.bigMethod(st, f, strings.TrimPrefix(name, "math/big.Int."), args, in)
	case name == "math/big.NewInt":
		ref := fr.alloc(st)
		fr.bigSet(st, ref, S64(args[0]))
		return []*Term{ref}, true
	}
	switch name {
	case "errors.New", "fmt.Errorf":
		ref := fr.alloc(st)
		tag := int64(999001)
		if name == "fmt.Errorf" {
			tag = 999002
		}
		return []*Term{MkIface(IntLit64(tag), ref)}, true
	case "sync/atomic.Value.Store", "sync/atomic.Value.Load":
		// an atomic.Value is a cell holding an interface value, identified by its address
		var m *Term
		cls := "A:*"
		if c != nil && len(c.Args) > 0 {
			if a, ok := fr.addrs[c.Args[0]]; ok {
				if a.kind == "field" && len(a.path) == 0 {
					// one class per struct field holding an atomic.Value, keyed by the object
					cls = "A:" + a.class
					m = a.base
				} else {
					m = addrTerm(a)
				}
			}
		}
		if m == nil {
			m = args[0]
		}
		h := fc.get(st, cls, SArr(SRef, SIface))
		if strings.HasSuffix(name, "Store") {
			st.heap[cls] = Store(h, m, args[1])
			return nil, true
		}
		v := Select(h, m)
		fr.typeInv(st, v, f.Signature.Results().At(0).Type())
		return []*Term{v}, true
	case "sync.Mutex.Lock", "sync.RWMutex.Lock", "sync.RWMutex.RLock", "sync.Mutex.Unlock", "sync.RWMutex.Unlock", "sync.RWMutex.RUnlock":
		var m *Term
		if c != nil && len(c.Args) > 0 {
			if a, ok := fr.addrs[c.Args[0]]; ok {
				m = addrTerm(a)
			}
		}
		if m == nil {
			m = args[0]
		}
		h := fc.get(st, "lock", SArr(SRef, SInt))
		d := Select(h, m)
		if strings.HasSuffix(name, "nlock") {
			st.heap["lock"] = Store(h, m, iSub(d, iLit(1)))
		} else {
			st.heap["lock"] = Store(h, m, iAdd(d, iLit(1)))
		}
		return nil, true
	case "bytes.Equal":
		a, b := args[0], args[1]
		h := fc.get(st, elemClass(types.Typ[types.Byte]), elemClassSort(types.Typ[types.Byte]))
		ra, rb := Select(h, SlArr(a)), Select(h, SlArr(b))
		k := BVar("k", SBV64)
		same := Forall([]*Term{k}, Implies(bvCmp("bvult", k, SlLen(a)), Eq(Select(ra, bvBin("bvadd", SlOff(a), k)), Select(rb, bvBin("bvadd", SlOff(b), k)))))
		r := fc.fresh("bytesEqual", SBool)
		fc.assume(True, Eq(r, And(Eq(SlLen(a), SlLen(b)), same)))
		return []*Term{r}, true
	case "encoding/binary.bigEndian.Uint16", "encoding/binary.bigEndian.Uint32", "encoding/binary.bigEndian.Uint64",
		"encoding/binary.littleEndian.Uint16", "encoding/binary.littleEndian.Uint32", "encoding/binary.littleEndian.Uint64":
		n := map[string]int{"16": 2, "32": 4, "64": 8}[name[len(name)-2:]]
		b := args[len(args)-1]
		fr.safe(st, "index", bvCmp("bvult", BVLit64(uint64(n-1), 64), SlLen(b)), in, name+": slice too short")
		h := fc.get(st, elemClass(types.Typ[types.Byte]), elemClassSort(types.Typ[types.Byte]))
		row := Select(h, SlArr(b))
		var r *Term
		for i := 0; i < n; i++ {
			idx := i
			if strings.Contains(name, "little") {
				idx = n - 1 - i
			}
			by := Select(row, bvBin("bvadd", SlOff(b), BVLit64(uint64(idx), 64)))
			if r == nil {
				r = by
			} else {
				r = Op("concat", SBV(r.sort.Bits()+8), r, by)
			}
		}
		return []*Term{r}, true
	case "encoding/binary.bigEndian.PutUint16", "encoding/binary.bigEndian.PutUint32", "encoding/binary.bigEndian.PutUint64",
		"encoding/binary.littleEndian.PutUint16", "encoding/binary.littleEndian.PutUint32", "encoding/binary.littleEndian.PutUint64":
		n := map[string]int{"16": 2, "32": 4, "64": 8}[name[len(name)-2:]]
		b := args[len(args)-2]
		v := args[len(args)-1]
		fr.safe(st, "index", bvCmp("bvult", BVLit64(uint64(n-1), 64), SlLen(b)), in, name+": slice too short")
		cls := elemClass(types.Typ[types.Byte])
		h := fc.get(st, cls, elemClassSort(types.Typ[types.Byte]))
		row := Select(h, SlArr(b))
		for i := 0; i < n; i++ {
			// big endian: byte i holds bits [8(n-1-i)+7 : 8(n-1-i)]
			sh := n - 1 - i
			if strings.Contains(name, "little") {
				sh = i
			}
			row = Store(row, bvBin("bvadd", SlOff(b), BVLit64(uint64(i), 64)), Extract(8*sh+7, 8*sh, v))
		}
		st.heap[cls] = Store(h, SlArr(b), row)
		return nil, true
	}
	return nil, false
}

func (fr *Frame) bigMethod(st *State, f *ssa.Function, m string, args []*Term, in ssa.Instruction) ([]*Term, bool) {
	fc := fr.fc
	z := args[0]
	fr.safe(st, "nil", Not(Eq(z, IntLit64(0))), in, "big.Int method on nil receiver")
	val := func(i int) *Term {
		fr.safe(st, "nil", Not(Eq(args[i], IntLit64(0))), in, "big.Int nil operand")
		return fr.bigGet(st, args[i])
	}
	set := func(v *Term) ([]*Term, bool) {
		fr.bigSet(st, z, v)
		return []*Term{z}, true
	}
	zero := iLit(0)
	cmpInt := func(a, b *Term) *Term {
		return Ite(iLt(a, b), BVLit(big.NewInt(-1), 64), Ite(iLt(b, a), BVLit64(1, 64), BVLit64(0, 64)))
	}
	bitop := func(name string, a, b *Term) *Term { return App(name, SInt, a, b) }
	switch m {
	case "Add":
		return set(iAdd(val(1), val(2)))
	case "Sub":
		return set(iSub(val(1), val(2)))
	case "Mul":
		return set(iMul(val(1), val(2)))
	case "Div", "Mod", "Quo", "Rem", "DivMod", "QuoRem":
		x, y := val(1), val(2)
		fr.safe(st, "div", Not(Eq(y, zero)), in, "big.Int division by zero")
		ediv := eDiv(x, y)
		emod := eMod(x, y)
		// truncated division from Euclidean
		tq := Ite(Or(Op(">=", SBool, x, zero), Eq(emod, zero)), ediv, Ite(Op(">", SBool, y, zero), iAdd(ediv, iLit(1)), iSub(ediv, iLit(1))))
		tr := iSub(x, iMul(y, tq))
		switch m {
		case "Div":
			return set(ediv)
		case "Mod":
			return set(emod)
		case "Quo":
			return set(tq)
		case "Rem":
			return set(tr)
		case "DivMod":
			fr.bigSet(st, z, ediv)
			fr.bigSet(st, args[3], emod)
			return []*Term{z, args[3]}, true
		default:
			fr.bigSet(st, z, tq)
			fr.bigSet(st, args[3], tr)
			return []*Term{z, args[3]}, true
		}
	case "Neg":
		return set(Op("-", SInt, val(1)))
	case "Abs":
		x := val(1)
		return set(Ite(iLt(x, zero), Op("-", SInt, x), x))
	case "Set":
		return set(val(1))
	case "SetUint64":
		return set(U64(args[1]))
	case "SetInt64":
		return set(S64(args[1]))
	case "SetBit":
		return set(App("bigsetbit", SInt, val(1), S64(args[2]), U64(args[3])))
	case "Lsh":
		return set(iMul(val(1), pow2Term(args[2])))
	case "Rsh":
		return set(eDiv(val(1), pow2Term(args[2])))
	case "And":
		a, b := val(1), val(2)
		// x & (2^k - 1) == x mod 2^k for every integer x (two's complement semantics of math/big)
		isMask := func(t *Term) (*big.Int, bool) {
			if t.IsLit() && t.val != nil && t.val.Sign() > 0 {
				p := new(big.Int).Add(t.val, big.NewInt(1))
				if new(big.Int).And(p, t.val).Sign() == 0 {
					return p, true
				}
			}
			return nil, false
		}
		if p, ok := isMask(b); ok {
			return set(Op("mod", SInt, a, IntLit(p)))
		}
		if p, ok := isMask(a); ok {
			return set(Op("mod", SInt, b, IntLit(p)))
		}
		return set(bitop("bigand", a, b))
	case "Or":
		return set(bitop("bigor", val(1), val(2)))
	case "Xor":
		return set(bitop("bigxor", val(1), val(2)))
	case "AndNot":
		return set(bitop("bigand", val(1), iSub(Op("-", SInt, val(2)), iLit(1))))
	case "Not":
		return set(iSub(Op("-", SInt, val(1)), iLit(1)))
	case "Exp":
		x, y := val(1), val(2)
		e := App("bigexp", SInt, x, y)
		if x.IsLit() && y.IsLit() && x.val != nil && y.val != nil && y.val.Sign() >= 0 && y.val.BitLen() <= 16 {
			e = IntLit(new(big.Int).Exp(x.val, y.val, nil))
		}
		mref := args[3]
		mv := fr.bigGet(st, mref)
		r := Ite(Or(Eq(mref, IntLit64(0)), Eq(mv, zero)), e, eMod(e, Ite(iLt(mv, zero), Op("-", SInt, mv), mv)))
		return set(r)
	case "Cmp":
		return []*Term{cmpInt(val(0), val(1))}, true
	case "CmpAbs":
		abs := func(x *Term) *Term { return Ite(iLt(x, zero), Op("-", SInt, x), x) }
		return []*Term{cmpInt(abs(val(0)), abs(val(1)))}, true
	case "Sign":
		return []*Term{cmpInt(val(0), zero)}, true
	case "BitLen":
		return []*Term{App("bitlen", SBV64, val(0))}, true
	case "Bit":
		return []*Term{App("bigbit", SBV64, val(0), S64(args[1]))}, true
	case "Uint64":
		return []*Term{L64(val(0))}, true
	case "Int64":
		return []*Term{L64(val(0))}, true
	case "IsUint64":
		x := val(0)
		return []*Term{And(Op(">=", SBool, x, zero), iLt(x, IntLit(two64)))}, true
	case "IsInt64":
		x := val(0)
		h := new(big.Int).Lsh(big.NewInt(1), 63)
		return []*Term{And(Op(">=", SBool, x, IntLit(new(big.Int).Neg(h))), iLt(x, IntLit(h)))}, true
	case "SetBytes":
		b := args[1]
		h := fc.get(st, elemClass(types.Typ[types.Byte]), elemClassSort(types.Typ[types.Byte]))
		v := App("bigofbytes", SInt, Select(h, SlArr(b)), SlOff(b), SlLen(b))
		return set(v)
	case "Bytes":
		x := val(0)
		ref := fr.alloc(st)
		n := App("bytelen", SBV64, Ite(iLt(x, zero), Op("-", SInt, x), x))
		cls := elemClass(types.Typ[types.Byte])
		h := fc.get(st, cls, elemClassSort(types.Typ[types.Byte]))
		row := App("bigbytes", SByteArr, Ite(iLt(x, zero), Op("-", SInt, x), x))
		st.heap[cls] = Store(h, ref, row)
		return []*Term{MkSlice(ref, BVLit64(0, 64), n, n)}, true
	case "SetString":
		// literal arguments (package constants such as the curve order) are evaluated exactly
		if args[2].IsLit() && args[2].val != nil {
			for lit, t := range strLits {
				if t == args[1] {
					if v, ok := new(big.Int).SetString(lit, int(args[2].val.Int64())); ok {
						fr.bigSet(st, z, IntLit(v))
						return []*Term{z, True}, true
					}
					return []*Term{NilRef, False}, true
				}
			}
		}
		fr.bigSet(st, z, fc.fresh("big.SetString", SInt))
		ok := fc.fresh("setstring.ok", SBool)
		return []*Term{Ite(ok, z, NilRef), ok}, true
	case "String", "Text":
		return []*Term{fc.fresh("bigstr", SStr)}, true
	case "Bits":
		panic(unsupported("big.Int.Bits"))
	}
	// unknown method: result unconstrained, receiver value forgotten
	fc.note("math/big method without a model: " + m)
	readOnly := true
	for i := 0; i < f.Signature.Results().Len(); i++ {
		if isBigIntPtr(f.Signature.Results().At(i).Type()) {
			readOnly = false
		}
	}
	for _, p := range []string{"Set", "Unmarshal", "Scan", "Fill", "GobDecode", "Rand", "Sqrt", "GCD", "ModInverse", "ModSqrt", "Binomial", "MulRange"} {
		if strings.HasPrefix(m, p) {
			readOnly = false
		}
	}
	if !readOnly {
		fr.bigSet(st, z, fc.fresh("big."+m, SInt))
	}
	var res []*Term
	rs := f.Signature.Results()
	for i := 0; i < rs.Len(); i++ {
		rt := rs.At(i).Type()
		if isBigIntPtr(rt) {
			res = append(res, z)
			continue
		}
		t := fc.fresh("ret.big."+m, SortOf(rt))
		fr.typeInv(st, t, rt)
		res = append(res, t)
	}
	return res, true
}

var _ = fmt.Sprintf
