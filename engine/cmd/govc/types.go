package main

// Go type -> SMT sort mapping, datatype registry (structs, Slice, Iface, Str), zero values.

import (
	"fmt"
	"go/types"
	"sort"
	"strings"
)

const (
	SSlice Sort = "Slice"
	SIface Sort = "Iface"
	SRef   Sort = "Int"
)

var SBV64 = SBV(64)
var SBV8 = SBV(8)
var SByteArr = SArr(SBV64, SBV8)

type DT struct {
	name    string
	ctor    string
	fields  []string // selector names
	sorts   []Sort
	typ     *types.Struct
	gofield []string
}

type TypeReg struct {
	dts     map[string]*DT // by sort name
	byType  []dtEntry
	order   []*DT
	typeIDs map[string]int
	idTypes []types.Type
}

type dtEntry struct {
	t  types.Type
	dt *DT
}

var TR = &TypeReg{dts: map[string]*DT{}, typeIDs: map[string]int{}}

func isBigInt(t types.Type) bool {
	if n, ok := t.(*types.Named); ok {
		o := n.Obj()
		return o.Pkg() != nil && o.Pkg().Path() == "math/big" && o.Name() == "Int"
	}
	return false
}

func isBigIntPtr(t types.Type) bool {
	if p, ok := t.Underlying().(*types.Pointer); ok {
		return isBigInt(p.Elem())
	}
	return false
}

func typeName(t types.Type) string {
	return types.TypeString(t, func(p *types.Package) string { return p.Name() })
}

// typeKey is a canonical string for a type (byte == uint8, rune == int32).
func typeKey(t types.Type) string {
	t = types.Unalias(t)
	switch u := t.(type) {
	case *types.Basic:
		if int(u.Kind()) < len(types.Typ) && types.Typ[u.Kind()] != nil {
			return types.Typ[u.Kind()].Name()
		}
		return u.Name()
	case *types.Pointer:
		return "*" + typeKey(u.Elem())
	case *types.Slice:
		return "[]" + typeKey(u.Elem())
	case *types.Array:
		return fmt.Sprintf("[%d]%s", u.Len(), typeKey(u.Elem()))
	case *types.Map:
		return "map[" + typeKey(u.Key()) + "]" + typeKey(u.Elem())
	}
	if n, ok := t.(*types.Named); ok {
		// a named type over a basic type shares storage classes with its underlying type
		// (pointer conversions such as (*uint64)(gp) alias the same cell)
		if b, ok := n.Underlying().(*types.Basic); ok {
			return typeKey(b)
		}
	}
	return types.TypeString(t, func(p *types.Package) string { return p.Path() })
}

func intBits(b *types.Basic) (bits int, signed bool) {
	switch b.Kind() {
	case types.Int8:
		return 8, true
	case types.Int16:
		return 16, true
	case types.Int32:
		return 32, true
	case types.Int64, types.Int, types.UntypedInt, types.UntypedRune:
		return 64, true
	case types.Uint8:
		return 8, false
	case types.Uint16:
		return 16, false
	case types.Uint32:
		return 32, false
	case types.Uint64, types.Uint, types.Uintptr:
		return 64, false
	}
	return 0, false
}

func isSigned(t types.Type) bool {
	if b, ok := t.Underlying().(*types.Basic); ok {
		_, s := intBits(b)
		return s
	}
	return false
}

func isIntType(t types.Type) bool {
	if b, ok := t.Underlying().(*types.Basic); ok {
		n, _ := intBits(b)
		return n > 0
	}
	return false
}

// SortOf maps a Go type to its SMT sort.
func SortOf(t types.Type) Sort {
	switch u := t.Underlying().(type) {
	case *types.Basic:
		if n, _ := intBits(u); n > 0 {
			return SBV(n)
		}
		switch u.Kind() {
		case types.Bool, types.UntypedBool:
			return SBool
		case types.String, types.UntypedString:
			return SStr
		case types.Float32, types.Float64, types.UntypedFloat:
			return SF64
		case types.UnsafePointer, types.UntypedNil:
			return SRef
		case types.Complex64, types.Complex128:
			return SF64
		}
		panic(unsupported("basic type " + u.String()))
	case *types.Pointer, *types.Map, *types.Chan, *types.Signature:
		return SRef
	case *types.Slice:
		return SSlice
	case *types.Interface:
		return SIface
	case *types.Array:
		return SArr(SBV64, SortOf(u.Elem()))
	case *types.Struct:
		return Sort(TR.structDT(t).name)
	case *types.Tuple:
		panic(unsupported("tuple sort"))
	case *types.TypeParam:
		panic(unsupported("type parameter"))
	}
	panic(unsupported("type " + t.String()))
}

type unsupportedErr string

func unsupported(s string) unsupportedErr { return unsupportedErr(s) }
func (u unsupportedErr) Error() string   { return "unsupported: " + string(u) }

func (r *TypeReg) structDT(t types.Type) *DT {
	for _, e := range r.byType {
		if types.Identical(e.t, t) {
			return e.dt
		}
	}
	st := t.Underlying().(*types.Struct)
	nm := "S_" + sanitize(typeName(t))
	if _, isNamed := t.(*types.Named); !isNamed {
		nm = fmt.Sprintf("S_anon%d", len(r.byType))
	}
	base := nm
	for i := 2; r.dts[nm] != nil; i++ {
		nm = fmt.Sprintf("%s_%d", base, i)
	}
	dt := &DT{name: nm, ctor: "mk_" + nm, typ: st}
	r.dts[nm] = dt
	r.byType = append(r.byType, dtEntry{t, dt})
	for i := 0; i < st.NumFields(); i++ {
		f := st.Field(i)
		dt.fields = append(dt.fields, fmt.Sprintf("%s_%s", nm, sanitize(f.Name())))
		dt.gofield = append(dt.gofield, f.Name())
		dt.sorts = append(dt.sorts, SortOf(f.Type()))
	}
	r.order = append(r.order, dt) // appended after field sorts, so dependencies come first
	return dt
}

// TypeID returns a stable small positive integer for a dynamic type (interface tags).
func (r *TypeReg) TypeID(t types.Type) int {
	k := types.TypeString(types.Unalias(t), func(p *types.Package) string { return p.Path() })
	if id, ok := r.typeIDs[k]; ok {
		return id
	}
	id := len(r.idTypes) + 1
	r.typeIDs[k] = id
	r.idTypes = append(r.idTypes, t)
	return id
}

// Datatype helper terms

func MkStruct(dt *DT, fs []*Term) *Term {
	// simplification: mk(sel0(x), sel1(x), ...) == x
	if len(fs) > 0 && fs[0].op == "app" && fs[0].name == dt.fields[0] && len(fs[0].args) == 1 {
		x := fs[0].args[0]
		same := true
		for i, f := range fs {
			if !(f.op == "app" && f.name == dt.fields[i] && len(f.args) == 1 && f.args[0] == x) {
				same = false
				break
			}
		}
		if same {
			return x
		}
	}
	if len(fs) == 0 {
		return App(dt.ctor, Sort(dt.name))
	}
	return App(dt.ctor, Sort(dt.name), fs...)
}

func SelField(dt *DT, i int, x *Term) *Term {
	if x.op == "app" && x.name == dt.ctor {
		return x.args[i]
	}
	if x.op == "ite" {
		// push selectors through ite when both branches are constructors
		if x.args[1].op == "app" && x.args[1].name == dt.ctor && x.args[2].op == "app" && x.args[2].name == dt.ctor {
			return Ite(x.args[0], x.args[1].args[i], x.args[2].args[i])
		}
	}
	return App(dt.fields[i], dt.sorts[i], x)
}

func MkSlice(arr, off, ln, cp *Term) *Term { return App("mk_Slice", SSlice, arr, off, ln, cp) }
func sliceSel(name string, s Sort, i int, x *Term) *Term {
	if x.op == "app" && x.name == "mk_Slice" {
		return x.args[i]
	}
	if x.op == "ite" && x.args[1].op == "app" && x.args[1].name == "mk_Slice" && x.args[2].op == "app" && x.args[2].name == "mk_Slice" {
		return Ite(x.args[0], x.args[1].args[i], x.args[2].args[i])
	}
	return App(name, s, x)
}
func SlArr(x *Term) *Term { return sliceSel("sl_arr", SRef, 0, x) }
func SlOff(x *Term) *Term { return sliceSel("sl_off", SBV64, 1, x) }
func SlLen(x *Term) *Term { return sliceSel("sl_len", SBV64, 2, x) }
func SlCap(x *Term) *Term { return sliceSel("sl_cap", SBV64, 3, x) }

func MkIface(tag, val *Term) *Term { return App("mk_Iface", SIface, tag, val) }
func ifSel(name string, i int, x *Term) *Term {
	if x.op == "app" && x.name == "mk_Iface" {
		return x.args[i]
	}
	if x.op == "ite" && x.args[1].op == "app" && x.args[1].name == "mk_Iface" && x.args[2].op == "app" && x.args[2].name == "mk_Iface" {
		return Ite(x.args[0], x.args[1].args[i], x.args[2].args[i])
	}
	return App(name, SInt, x)
}
func IfTag(x *Term) *Term { return ifSel("if_tag", 0, x) }
func IfVal(x *Term) *Term { return ifSel("if_val", 1, x) }

var NilIface = MkIface(IntLit64(0), IntLit64(0))
var NilSlice = MkSlice(IntLit64(0), BVLit64(0, 64), BVLit64(0, 64), BVLit64(0, 64))
var NilRef = IntLit64(0)

func StrLen(x *Term) *Term  { return App("str_len", SBV64, x) }
func StrData(x *Term) *Term { return App("str_data", SByteArr, x) }

var strLits = map[string]*Term{}

func StrLit(s string) *Term {
	if t, ok := strLits[s]; ok {
		return t
	}
	var t *Term
	if len(s) <= 64 {
		arr := ConstArr(SByteArr, BVLit64(0, 8))
		for i := 0; i < len(s); i++ {
			arr = Store(arr, BVLit64(uint64(i), 64), BVLit64(uint64(s[i]), 8))
		}
		t = App("mk_Str", SStr, arr, BVLit64(uint64(len(s)), 64))
	} else {
		// long literals: opaque distinct constant with known length
		t = Const(fmt.Sprintf("strlit!%d", len(strLits)), SStr)
	}
	strLits[s] = t
	return t
}

// ZeroOf returns the zero value term of a Go type.
func ZeroOf(t types.Type) *Term {
	switch u := t.Underlying().(type) {
	case *types.Basic:
		if n, _ := intBits(u); n > 0 {
			return BVLit64(0, n)
		}
		switch u.Kind() {
		case types.Bool, types.UntypedBool:
			return False
		case types.String, types.UntypedString:
			return StrLit("")
		case types.Float32, types.Float64, types.UntypedFloat, types.Complex128, types.Complex64:
			return App("f64zero", SF64)
		}
		return NilRef
	case *types.Pointer, *types.Map, *types.Chan, *types.Signature:
		return NilRef
	case *types.Slice:
		return NilSlice
	case *types.Interface:
		return NilIface
	case *types.Array:
		return ConstArr(SortOf(t), ZeroOf(u.Elem()))
	case *types.Struct:
		dt := TR.structDT(t)
		fs := make([]*Term, u.NumFields())
		for i := range fs {
			fs[i] = ZeroOf(u.Field(i).Type())
		}
		return MkStruct(dt, fs)
	}
	panic(unsupported("zero of " + t.String()))
}

// Prelude rendering: datatypes, uninterpreted symbols, axioms, spec functions.

type Prelude struct {
	specs *SpecLib
}

func (p *Prelude) Render(usedFns map[string]bool, usedSorts map[Sort]bool) string {
	var sb strings.Builder
	sb.WriteString("(declare-sort F64 0)\n")
	sb.WriteString("(declare-datatypes ((Slice 0)) (((mk_Slice (sl_arr Int) (sl_off (_ BitVec 64)) (sl_len (_ BitVec 64)) (sl_cap (_ BitVec 64))))))\n")
	sb.WriteString("(declare-datatypes ((Iface 0)) (((mk_Iface (if_tag Int) (if_val Int)))))\n")
	sb.WriteString("(declare-datatypes ((Str 0)) (((mk_Str (str_data (Array (_ BitVec 64) (_ BitVec 8))) (str_len (_ BitVec 64))))))\n")
	sb.WriteString("(declare-fun f64zero () F64)\n")
	// struct datatypes actually used (transitively through field sorts)
	need := map[string]bool{}
	var mark func(s Sort)
	mark = func(s Sort) {
		str := string(s)
		for name, dt := range TR.dts {
			if need[name] {
				continue
			}
			if strings.Contains(str, name) && containsWord(str, name) {
				need[name] = true
				for _, fs := range dt.sorts {
					mark(fs)
				}
			}
		}
	}
	for s := range usedSorts {
		mark(s)
	}
	for fn := range usedFns {
		for name, dt := range TR.dts {
			if fn == dt.ctor || strings.HasPrefix(fn, name+"_") {
				mark(Sort(name))
			}
		}
	}
	for _, dt := range TR.order {
		if !need[dt.name] {
			continue
		}
		fmt.Fprintf(&sb, "(declare-datatypes ((%s 0)) (((%s", dt.name, dt.ctor)
		for i, f := range dt.fields {
			fmt.Fprintf(&sb, " (%s %s)", f, dt.sorts[i])
		}
		sb.WriteString("))))\n")
	}
	// uninterpreted functions registered in the pool
	var names []string
	for n := range P.decls {
		if usedFns[n] {
			names = append(names, n)
		}
	}
	sort.Strings(names)
	for _, n := range names {
		sb.WriteString(P.decls[n])
		sb.WriteString("\n")
	}
	if p != nil && p.specs != nil {
		sb.WriteString(p.specs.Render(usedFns))
	}
	return sb.String()
}

func containsWord(s, w string) bool {
	i := 0
	for {
		j := strings.Index(s[i:], w)
		if j < 0 {
			return false
		}
		j += i
		end := j + len(w)
		okL := j == 0 || !isSymChar(s[j-1])
		okR := end == len(s) || !isSymChar(s[end])
		if okL && okR {
			return true
		}
		i = j + 1
	}
}

func isSymChar(c byte) bool {
	return c == '_' || c == '.' || c == '$' || c == '!' || c >= '0' && c <= '9' || c >= 'a' && c <= 'z' || c >= 'A' && c <= 'Z'
}

// Declare registers an uninterpreted function.
func Declare(name string, args []Sort, res Sort) {
	if _, ok := P.decls[name]; ok {
		return
	}
	var as []string
	for _, a := range args {
		as = append(as, string(a))
	}
	P.decls[name] = fmt.Sprintf("(declare-fun %s (%s) %s)", name, strings.Join(as, " "), res)
}
