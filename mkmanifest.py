#!/usr/bin/env python3
"""Regenerates MANIFEST.json from claims.json (the per-property claim texts)."""
import json, os, subprocess
V = os.path.dirname(os.path.abspath(__file__))
claims = json.load(open(os.path.join(V, "claims.json")))
props = [json.loads(l)["id"] for l in open(os.path.join(V, "properties.jsonl"))]
hooks = subprocess.run(["git", "-C", "/repo", "log", "--format=%H %s"], capture_output=True, text=True).stdout.splitlines()
hook_commits = [l.split()[0] for l in hooks if l.split(" ", 1)[1].startswith("verif:")]
TECH = "contract-based deductive verification: weakest-precondition style VCs generated from go/ssa of /repo against //@ contracts, discharged by z3 4.8.12 / z3 5.1.0 / cvc5 1.0"
checks, na = [], []
for p in props:
    c = claims.get(p)
    if not c or c.get("not_applicable"):
        na.append({"property_id": p, "reason": (c or {}).get("not_applicable", "no contract within reach of the generator decides this property yet (see DESIGN.md section 1)")})
        continue
    checks.append({
        "property_id": p,
        "quick_cmd": "/verif/bin/govc check -id %s -tier quick" % p,
        "thorough_cmd": "/verif/bin/govc check -id %s -tier thorough" % p,
        "evidence_file": "/verif/evidence/%s.json" % p,
        "replay_cmd_template": "cat {path}",
        "engine": "govc",
        "level_claimed": {"category": "proof", "text": c["text"], "design_ref": c.get("design_ref", "DESIGN.md section 4 " + p)},
        "level_note": c["note"],
        "technique": c.get("technique", TECH),
    })
m = {
    "version": 1,
    "setup_cmd": "cd /verif/engine && GOFLAGS=-mod=mod GOPROXY=off go build -o /verif/bin/govc ./cmd/govc",
    "hooks": {"guard": "verif", "enable": "-tags verif (comment-only contract files <pkg>/verif_contracts.go; no executable code)",
              "baseline_off_cmd": "cd /repo && go test -mod=mod -vet=off -count=1 -timeout 25m ./...",
              "source_commits": hook_commits, "add_only": True},
    "engines": [{"name": "govc", "path": "/verif/engine", "serves_properties": [c["property_id"] for c in checks],
                 "kind_free_text": "contract-based deductive verifier for Go: VC generation over go/ssa of /repo, contracts in guarded comment-only files, obligations discharged by z3/cvc5"}],
    "checks": checks,
    "not_applicable": na,
    "notes": "Every check rebuilds its view from /repo's working tree (go/packages + go/ssa), regenerates all obligations and solves them; evidence is rewritten per run. See DESIGN.md.",
}
json.dump(m, open(os.path.join(V, "MANIFEST.json"), "w"), indent=1)
print("checks:", [c["property_id"] for c in checks])
