; secp256k1 group order and its half (EIP-2: from Homestead on, S must be in the lower half)
(define-fun SECP_N () Int 115792089237316195423570985008687907852837564279074904382605163141518161494337)
(define-fun SECP_HALFN () Int 57896044618658097711785492504343953926418782139537452191302581570759080747168)
; chain id carried by a signature's V, exactly as the code derives it (64-bit fast path included),
; and the replay-protection test on V
(define-fun dchain ((v Int)) Int
  (ite (< v 18446744073709551616)
       (ite (or (= (L64 v) (_ bv27 64)) (= (L64 v) (_ bv28 64))) 0 (U64 (bvudiv (bvsub (L64 v) (_ bv35 64)) (_ bv2 64))))
       (div (- v 35) 2)))
(define-fun protv ((v Int)) Bool
  (ite (< v 256) (and (distinct (L64 v) (_ bv27 64)) (distinct (L64 v) (_ bv28 64))) true))
