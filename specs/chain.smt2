; Fork choice (C02): the per-call contract of WriteBlockWithState (post.td, post.heavier, post.side,
; post.canon_notlighter, post.sidehead, post.canonhead) preserves "the head has maximal total
; difficulty among the stored blocks" - by induction over calls this is the all-histories claim -
; and the head's total difficulty never decreases.
;;@lemma[C02] head_stays_heaviest
(forall ((td (Array (Array (_ BitVec 64) (_ BitVec 8)) Int)) (td2 (Array (Array (_ BitVec 64) (_ BitVec 8)) Int))
         (stored (Array (Array (_ BitVec 64) (_ BitVec 8)) Bool))
         (head (Array (_ BitVec 64) (_ BitVec 8))) (head2 (Array (_ BitVec 64) (_ BitVec 8)))
         (b (Array (_ BitVec 64) (_ BitVec 8))) (p (Array (_ BitVec 64) (_ BitVec 8))) (d Int) (canon Bool))
  (=> (and (forall ((h (Array (_ BitVec 64) (_ BitVec 8)))) (=> (select stored h) (<= (select td h) (select td head))))
           (select stored head)
           (=> (select stored b) (= (select td b) (+ (select td p) d)))
           (= td2 (store td b (+ (select td p) d)))
           (=> (> (+ (select td p) d) (select td head)) canon)
           (=> (not canon) (<= (+ (select td p) d) (select td head)))
           (=> canon (>= (+ (select td p) d) (select td head)))
           (= head2 (ite canon b head)))
      (and (forall ((h (Array (_ BitVec 64) (_ BitVec 8)))) (=> (or (select stored h) (= h b)) (<= (select td2 h) (select td2 head2))))
           (>= (select td2 head2) (select td head)))))
; header hash as an observer of the header object; the all-zero hash (absent number-index entry)
(declare-fun hdrhash (Int) (Array (_ BitVec 64) (_ BitVec 8)))
(define-fun zerohash () (Array (_ BitVec 64) (_ BitVec 8)) ((as const (Array (_ BitVec 64) (_ BitVec 8))) #x00))
; bloom membership tests as observers of the bloom value and the looked-up key (C16)
(declare-fun bloomhasaddr ((Array (_ BitVec 64) (_ BitVec 8)) (Array (_ BitVec 64) (_ BitVec 8))) Bool)
(declare-fun bloomhashash ((Array (_ BitVec 64) (_ BitVec 8)) (Array (_ BitVec 64) (_ BitVec 8))) Bool)
(declare-fun bloomhasbig ((Array (_ BitVec 64) (_ BitVec 8)) Int) Bool)
