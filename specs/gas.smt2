; Gas arithmetic (Yellow Paper appendix G), stated over 128-bit vectors so that sums cannot wrap.
; number of non-zero bytes among the first n bytes of a[off..]
(define-fun-rec countnz ((a (Array (_ BitVec 64) (_ BitVec 8))) (off (_ BitVec 64)) (n (_ BitVec 64))) (_ BitVec 64)
  (ite (= n (_ bv0 64)) (_ bv0 64)
       (bvadd (countnz a off (bvsub n (_ bv1 64))) (ite (= (select a (bvadd off (bvsub n (_ bv1 64)))) #x00) (_ bv0 64) (_ bv1 64)))))
; intrinsic gas: base + 68 per non-zero byte + 4 per zero byte
(define-fun intrinsic128 ((base (_ BitVec 64)) (nz (_ BitVec 64)) (len (_ BitVec 64))) (_ BitVec 128)
  (bvadd ((_ zero_extend 64) base) (bvadd (bvmul (_ bv68 128) ((_ zero_extend 64) nz)) (bvmul (_ bv4 128) ((_ zero_extend 64) (bvsub len nz))))))
; observers of a message (transaction as seen by the state transition): pure functions of the
; message value, so that repeated calls of the interface methods agree
(declare-fun msg_gas (Iface) (_ BitVec 64))
(declare-fun msg_nonce (Iface) (_ BitVec 64))
(declare-fun msg_checknonce (Iface) Bool)
(declare-fun msg_from (Iface) (Array (_ BitVec 64) (_ BitVec 8)))
(declare-fun msg_to (Iface) Int)
; observers of a block object (pure functions of the block reference; Hash/ParentHash/NumberU64
; are cached or immutable fields of an immutable block)
(declare-fun blockhash (Int) (Array (_ BitVec 64) (_ BitVec 8)))
(declare-fun blockparent (Int) (Array (_ BitVec 64) (_ BitVec 8)))
(declare-fun blocknum (Int) (_ BitVec 64))
(declare-fun blockdiff (Int) Int)
; the live state object of an address in a state database (pure observer used by the journal contracts)
(declare-fun stobj (Int (Array (_ BitVec 64) (_ BitVec 8))) Int)
(declare-fun refaddr (Iface) (Array (_ BitVec 64) (_ BitVec 8)))  ; address of a ContractRef (observer)
