; Issuance schedule (property C05): for heights below 42,000,000 the miner gets R = 10^18 plus
; R/32 per uncle, each uncle's miner gets ((8 + uncleHeight - height) * R) div 8; nothing after.
(define-fun REWARD () Int 1000000000000000000)
; sum of the uncle-miner rewards over the first n uncles of the slice (row, off):
; hdrnum maps a header reference to its Number (*big.Int), bigv maps a *big.Int to its value
(define-fun-rec unclesum ((row (Array (_ BitVec 64) Int)) (off (_ BitVec 64)) (n (_ BitVec 64)) (hdrnum (Array Int Int)) (bigv (Array Int Int)) (h Int)) Int
  (ite (= n (_ bv0 64)) 0
       (+ (unclesum row off (bvsub n (_ bv1 64)) hdrnum bigv h)
          (div (* (- (+ (select bigv (select hdrnum (select row (bvadd off (bvsub n (_ bv1 64)))))) 8) h) REWARD) 8))))
