; Transaction pool (C15): observers of the signer and of the pool's view of the chain state.
(declare-fun txsender (Iface Int) (Array (_ BitVec 64) (_ BitVec 8)))   ; recovered sender of a transaction under a signer
(declare-fun txsenderok (Iface Int) Bool)                                ; recovery succeeds
(declare-fun st_nonce (Int (Array (_ BitVec 64) (_ BitVec 8))) (_ BitVec 64))
(declare-fun st_balance (Int (Array (_ BitVec 64) (_ BitVec 8))) Int)
