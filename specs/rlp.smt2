; RLP header grammar, written from Yellow Paper appendix B (independent of encoder and decoder).
; A value is described by (kind, tagsize, contentsize); input is the byte array a on [off, off+len).
(define-fun rlp_b ((a (Array (_ BitVec 64) (_ BitVec 8))) (i (_ BitVec 64))) (_ BitVec 64) ((_ zero_extend 56) (select a i)))
; big-endian value of n (1..8) bytes starting at off
(define-fun rlp_be1 ((a (Array (_ BitVec 64) (_ BitVec 8))) (off (_ BitVec 64))) (_ BitVec 64) (rlp_b a off))
(define-fun rlp_be2 ((a (Array (_ BitVec 64) (_ BitVec 8))) (off (_ BitVec 64))) (_ BitVec 64) (bvor (bvshl (rlp_be1 a off) (_ bv8 64)) (rlp_b a (bvadd off (_ bv1 64)))))
(define-fun rlp_be3 ((a (Array (_ BitVec 64) (_ BitVec 8))) (off (_ BitVec 64))) (_ BitVec 64) (bvor (bvshl (rlp_be2 a off) (_ bv8 64)) (rlp_b a (bvadd off (_ bv2 64)))))
(define-fun rlp_be4 ((a (Array (_ BitVec 64) (_ BitVec 8))) (off (_ BitVec 64))) (_ BitVec 64) (bvor (bvshl (rlp_be3 a off) (_ bv8 64)) (rlp_b a (bvadd off (_ bv3 64)))))
(define-fun rlp_be5 ((a (Array (_ BitVec 64) (_ BitVec 8))) (off (_ BitVec 64))) (_ BitVec 64) (bvor (bvshl (rlp_be4 a off) (_ bv8 64)) (rlp_b a (bvadd off (_ bv4 64)))))
(define-fun rlp_be6 ((a (Array (_ BitVec 64) (_ BitVec 8))) (off (_ BitVec 64))) (_ BitVec 64) (bvor (bvshl (rlp_be5 a off) (_ bv8 64)) (rlp_b a (bvadd off (_ bv5 64)))))
(define-fun rlp_be7 ((a (Array (_ BitVec 64) (_ BitVec 8))) (off (_ BitVec 64))) (_ BitVec 64) (bvor (bvshl (rlp_be6 a off) (_ bv8 64)) (rlp_b a (bvadd off (_ bv6 64)))))
(define-fun rlp_be8 ((a (Array (_ BitVec 64) (_ BitVec 8))) (off (_ BitVec 64))) (_ BitVec 64) (bvor (bvshl (rlp_be7 a off) (_ bv8 64)) (rlp_b a (bvadd off (_ bv7 64)))))
(define-fun rlp_be ((a (Array (_ BitVec 64) (_ BitVec 8))) (off (_ BitVec 64)) (n (_ BitVec 64))) (_ BitVec 64) (ite (= n (_ bv1 64)) (rlp_be1 a off) (ite (= n (_ bv2 64)) (rlp_be2 a off) (ite (= n (_ bv3 64)) (rlp_be3 a off) (ite (= n (_ bv4 64)) (rlp_be4 a off) (ite (= n (_ bv5 64)) (rlp_be5 a off) (ite (= n (_ bv6 64)) (rlp_be6 a off) (ite (= n (_ bv7 64)) (rlp_be7 a off) (ite (= n (_ bv8 64)) (rlp_be8 a off) (_ bv0 64))))))))))
; first byte classes
(define-fun rlp_first ((a (Array (_ BitVec 64) (_ BitVec 8))) (off (_ BitVec 64))) (_ BitVec 64) (rlp_b a off))
; kind: 0 = single byte, 1 = string, 2 = list
(define-fun rlp_kind ((a (Array (_ BitVec 64) (_ BitVec 8))) (off (_ BitVec 64)) (len (_ BitVec 64))) (_ BitVec 64)
  (let ((f (rlp_first a off)))
   (ite (bvult f #x0000000000000080) (_ bv0 64) (ite (bvult f #x00000000000000c0) (_ bv1 64) (_ bv2 64)))))
; length of the length field (0 for short forms)
(define-fun rlp_ll ((a (Array (_ BitVec 64) (_ BitVec 8))) (off (_ BitVec 64))) (_ BitVec 64)
  (let ((f (rlp_first a off)))
   (ite (bvult f #x00000000000000b8) (_ bv0 64)
   (ite (bvult f #x00000000000000c0) (bvsub f #x00000000000000b7)
   (ite (bvult f #x00000000000000f8) (_ bv0 64) (bvsub f #x00000000000000f7))))))
(define-fun rlp_tag ((a (Array (_ BitVec 64) (_ BitVec 8))) (off (_ BitVec 64)) (len (_ BitVec 64))) (_ BitVec 64)
  (let ((f (rlp_first a off)))
   (ite (bvult f #x0000000000000080) (_ bv0 64) (bvadd (_ bv1 64) (rlp_ll a off)))))
(define-fun rlp_size ((a (Array (_ BitVec 64) (_ BitVec 8))) (off (_ BitVec 64)) (len (_ BitVec 64))) (_ BitVec 64)
  (let ((f (rlp_first a off)))
   (ite (bvult f #x0000000000000080) (_ bv1 64)
   (ite (bvult f #x00000000000000b8) (bvsub f #x0000000000000080)
   (ite (bvult f #x00000000000000c0) (rlp_be a (bvadd off (_ bv1 64)) (rlp_ll a off))
   (ite (bvult f #x00000000000000f8) (bvsub f #x00000000000000c0)
        (rlp_be a (bvadd off (_ bv1 64)) (rlp_ll a off))))))))
; canonical and complete header: the only accepted inputs
(define-fun rlp_ok ((a (Array (_ BitVec 64) (_ BitVec 8))) (off (_ BitVec 64)) (len (_ BitVec 64))) Bool
  (let ((f (rlp_first a off)) (ll (rlp_ll a off)))
   (and (bvugt len (_ bv0 64))
        ; long form: the length bytes are present, minimal (>= 56) and have no leading zero
        (=> (bvugt ll (_ bv0 64))
            (and (bvule ll (bvsub len (_ bv1 64)))
                 (bvuge (rlp_size a off len) (_ bv56 64))
                 (distinct (select a (bvadd off (_ bv1 64))) #x00)))
        ; a single byte below 0x80 is its own encoding
        (not (and (= f #x0000000000000081) (bvugt len (_ bv1 64)) (bvult (select a (bvadd off (_ bv1 64))) #x80)))
        ; the content fits the input
        (bvule (rlp_tag a off len) len)
        (bvule (rlp_size a off len) (bvsub len (rlp_tag a off len))))))
; minimal big-endian length of an unsigned 64-bit integer (1 for zero)
(define-fun rlp_bytelen ((i (_ BitVec 64))) (_ BitVec 64)
  (ite (bvult i #x0000000000000100) (_ bv1 64) (ite (bvult i #x0000000000010000) (_ bv2 64) (ite (bvult i #x0000000001000000) (_ bv3 64)
  (ite (bvult i #x0000000100000000) (_ bv4 64) (ite (bvult i #x0000010000000000) (_ bv5 64) (ite (bvult i #x0001000000000000) (_ bv6 64)
  (ite (bvult i #x0100000000000000) (_ bv7 64) (_ bv8 64)))))))))
; canonical header length for a payload of the given size
(define-fun rlp_headlen ((size (_ BitVec 64))) (_ BitVec 64) (ite (bvult size (_ bv56 64)) (_ bv1 64) (bvadd (_ bv1 64) (rlp_bytelen size))))
; length of the RLP encoding of a Go value (observer of the interface value handed to rlp.Encode)
(declare-fun rlpenclen (Iface) (_ BitVec 64))
(assert (forall ((x Iface)) (! (bvule (rlpenclen x) #x0000010000000000) :pattern ((rlpenclen x)))))
