; EVM instruction semantics over mathematical integers (Yellow Paper appendix H.2, EIP-145).
; Words are integers in [0, 2^256); s256 reads a word as two's complement.
(define-fun TT256 () Int 115792089237316195423570985008687907853269984665640564039457584007913129639936)
(define-fun TT255 () Int 57896044618658097711785492504343953926634992332820282019728792003956564819968)
(define-fun u256 ((x Int)) Int (mod x TT256))
(define-fun s256 ((x Int)) Int (ite (< x TT255) x (- x TT256)))
(define-fun iabs ((x Int)) Int (ite (< x 0) (- x) x))
(define-fun isgn ((x Int)) Int (ite (< x 0) (- 1) 1))
(define-fun isword ((x Int)) Bool (and (<= 0 x) (< x TT256)))
(define-fun evm_add ((a Int) (b Int)) Int (u256 (+ a b)))
(define-fun evm_sub ((a Int) (b Int)) Int (u256 (- a b)))
(define-fun evm_mul ((a Int) (b Int)) Int (u256 (imul a b)))
(define-fun evm_div ((a Int) (b Int)) Int (ite (= b 0) 0 (ediv a b)))
(define-fun evm_mod ((a Int) (b Int)) Int (ite (= b 0) 0 (emod a b)))
; signed division truncates toward zero; the sign is that of the quotient
(define-fun evm_sdiv ((a Int) (b Int)) Int
  (ite (= b 0) 0 (u256 (ite (= (isgn (s256 a)) (isgn (s256 b))) (ediv (iabs (s256 a)) (iabs (s256 b))) (- (ediv (iabs (s256 a)) (iabs (s256 b))))))))
; signed modulo takes the sign of the dividend
(define-fun evm_smod ((a Int) (b Int)) Int
  (ite (= b 0) 0 (u256 (ite (< (s256 a) 0) (- (emod (iabs (s256 a)) (iabs (s256 b)))) (emod (iabs (s256 a)) (iabs (s256 b)))))))
(define-fun evm_addmod ((a Int) (b Int) (n Int)) Int (ite (= n 0) 0 (emod (+ a b) n)))
(define-fun evm_mulmod ((a Int) (b Int) (n Int)) Int (ite (= n 0) 0 (emod (imul a b) n)))
(define-fun evm_not ((a Int)) Int (- (- TT256 1) a))
(define-fun evm_lt ((a Int) (b Int)) Int (ite (< a b) 1 0))
(define-fun evm_gt ((a Int) (b Int)) Int (ite (> a b) 1 0))
(define-fun evm_slt ((a Int) (b Int)) Int (ite (< (s256 a) (s256 b)) 1 0))
(define-fun evm_sgt ((a Int) (b Int)) Int (ite (> (s256 a) (s256 b)) 1 0))
(define-fun evm_eq ((a Int) (b Int)) Int (ite (= a b) 1 0))
(define-fun evm_iszero ((a Int)) Int (ite (= a 0) 1 0))
(define-fun evm_and ((a Int) (b Int)) Int (bigand a b))
(define-fun evm_or ((a Int) (b Int)) Int (bigor a b))
(define-fun evm_xor ((a Int) (b Int)) Int (bigxor a b))
; shifts (EIP-145): first operand is the shift amount
(define-fun evm_shl ((s Int) (v Int)) Int (ite (>= s 256) 0 (u256 (imul v (pow2 s)))))
(define-fun evm_shr ((s Int) (v Int)) Int (ite (>= s 256) 0 (ediv v (pow2 s))))
(define-fun evm_sar ((s Int) (v Int)) Int
  (ite (>= s 256) (ite (>= (s256 v) 0) 0 (- TT256 1)) (u256 (ediv (s256 v) (pow2 s)))))
; BYTE: i-th byte counting from the most significant
(define-fun evm_byte ((i Int) (a Int)) Int (ite (< i 32) (mod (ediv a (pow256 (- 31 i))) 256) 0))

; Memory expansion fee: for at most 2^32-1 words the 64-bit computation 3*w + w*w/512 equals the
; mathematical quantity (no intermediate wraps). Links memoryGasCost#post.nowrap and
; #post.quadratic64 to the Yellow Paper's C_mem.
;;@lemma[C08] memfee_nowrap
(forall ((w (_ BitVec 64)))
  (=> (bvule w #x00000000ffffffff)
      (= ((_ zero_extend 64) (bvadd (bvmul w #x0000000000000003) (bvudiv (bvmul w w) #x0000000000000200)))
         (bvadd (bvmul ((_ zero_extend 64) w) ((_ zero_extend 64) #x0000000000000003))
                (bvudiv (bvmul ((_ zero_extend 64) w) ((_ zero_extend 64) w)) ((_ zero_extend 64) #x0000000000000200))))))
