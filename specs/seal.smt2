; Proof-of-work seal (C14): the 40-byte seed is viewed as five big-endian 64-bit words; the
; digests are uninterpreted functions of the algorithm (and argon2id memory in KiB) and the seed.
(define-fun word8 ((a (Array (_ BitVec 64) (_ BitVec 8))) (o (_ BitVec 64))) (_ BitVec 64)
  (concat (select a o) (select a (bvadd o #x0000000000000001)) (select a (bvadd o #x0000000000000002)) (select a (bvadd o #x0000000000000003))
          (select a (bvadd o #x0000000000000004)) (select a (bvadd o #x0000000000000005)) (select a (bvadd o #x0000000000000006)) (select a (bvadd o #x0000000000000007))))
(declare-fun keccakv ((_ BitVec 64) (_ BitVec 64) (_ BitVec 64) (_ BitVec 64) (_ BitVec 64)) Int)
(declare-fun argonv ((_ BitVec 32) (_ BitVec 64) (_ BitVec 64) (_ BitVec 64) (_ BitVec 64) (_ BitVec 64)) Int)
(define-fun vhash ((v (_ BitVec 8)) (w0 (_ BitVec 64)) (w1 (_ BitVec 64)) (w2 (_ BitVec 64)) (w3 (_ BitVec 64)) (w4 (_ BitVec 64))) Int
  (ite (= v #x01) (keccakv w0 w1 w2 w3 w4)
  (ite (= v #x02) (argonv #x00000001 w0 w1 w2 w3 w4)
  (ite (= v #x03) (argonv #x00000010 w0 w1 w2 w3 w4)
                  (argonv #x00000020 w0 w1 w2 w3 w4)))))
; seal-free header hash as an observer of the header object
(declare-fun hnn (Int) (Array (_ BitVec 64) (_ BitVec 8)))
; the nonce is stored big-endian in the header and little-endian in the seed: the fifth seed word
; is the header nonce bytes reversed
(define-fun noncerev ((n (Array (_ BitVec 64) (_ BitVec 8)))) (_ BitVec 64)
  (concat (select n #x0000000000000007) (select n #x0000000000000006) (select n #x0000000000000005) (select n #x0000000000000004)
          (select n #x0000000000000003) (select n #x0000000000000002) (select n #x0000000000000001) (select n #x0000000000000000)))
